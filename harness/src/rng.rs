//! Deterministic PRNG (splitmix64 seeding + xoshiro256**). Every generated case is a pure
//! function of (seed, engine, shard, index).
#[derive(Clone, Debug)]
pub struct Rng {
    s: [u64; 4],
}

pub fn splitmix(x: &mut u64) -> u64 {
    *x = x.wrapping_add(0x9E3779B97F4A7C15);
    let mut z = *x;
    z = (z ^ (z >> 30)).wrapping_mul(0xBF58476D1CE4E5B9);
    z = (z ^ (z >> 27)).wrapping_mul(0x94D049BB133111EB);
    z ^ (z >> 31)
}

pub fn hash_str(s: &str) -> u64 {
    // FNV-1a 64
    let mut h: u64 = 0xcbf29ce484222325;
    for b in s.as_bytes() {
        h ^= *b as u64;
        h = h.wrapping_mul(0x100000001b3);
    }
    h
}

impl Rng {
    pub fn new(seed: u64) -> Rng {
        let mut x = seed;
        let s = [splitmix(&mut x), splitmix(&mut x), splitmix(&mut x), splitmix(&mut x)];
        Rng { s }
    }
    /// PRNG for one case.
    pub fn for_case(seed: u64, engine: &str, shard: u64, index: u64) -> Rng {
        let mut x = seed ^ hash_str(engine).rotate_left(17);
        let a = splitmix(&mut x);
        let mut y = a ^ shard.wrapping_mul(0xD1B54A32D192ED03);
        let b = splitmix(&mut y);
        let mut z = b ^ index.wrapping_mul(0x9E3779B97F4A7C15);
        Rng::new(splitmix(&mut z))
    }
    pub fn next_u64(&mut self) -> u64 {
        let result = self.s[1].wrapping_mul(5).rotate_left(7).wrapping_mul(9);
        let t = self.s[1] << 17;
        self.s[2] ^= self.s[0];
        self.s[3] ^= self.s[1];
        self.s[1] ^= self.s[2];
        self.s[0] ^= self.s[3];
        self.s[2] ^= t;
        self.s[3] = self.s[3].rotate_left(45);
        result
    }
    /// uniform in 0..n (n > 0)
    pub fn below(&mut self, n: u64) -> u64 {
        debug_assert!(n > 0);
        ((self.next_u64() as u128 * n as u128) >> 64) as u64
    }
    pub fn usize(&mut self, n: usize) -> usize {
        self.below(n as u64) as usize
    }
    /// inclusive range
    pub fn range(&mut self, lo: i64, hi: i64) -> i64 {
        lo + self.below((hi - lo + 1) as u64) as i64
    }
    pub fn chance(&mut self, num: u64, den: u64) -> bool {
        self.below(den) < num
    }
    pub fn bool(&mut self) -> bool {
        self.next_u64() & 1 == 1
    }
    pub fn pick<'a, T>(&mut self, xs: &'a [T]) -> &'a T {
        &xs[self.usize(xs.len())]
    }
    pub fn f64_unit(&mut self) -> f64 {
        (self.next_u64() >> 11) as f64 / (1u64 << 53) as f64
    }
}
