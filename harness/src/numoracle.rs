//! Numeric oracle shared by C08/C09/C10/C16: exact values as arbitrary-precision rationals.
//! Trusted base: the `num` crates' BigInt/BigRational arithmetic (also used by marwood), none of
//! marwood's own representation dispatch.
use marwood::number::Number;
use num::bigint::BigInt;
use num::{BigRational, One, Signed, ToPrimitive, Zero};

/// exact mathematical value; None for NaN / infinities
pub fn exact(n: &Number) -> Option<BigRational> {
    match n {
        Number::Fixnum(i) => Some(BigRational::from_integer(BigInt::from(*i))),
        Number::BigInt(b) => Some(BigRational::from_integer((**b).clone())),
        Number::Rational(r) => Some(BigRational::new(BigInt::from(*r.numer()), BigInt::from(*r.denom()))),
        Number::Float(f) => BigRational::from_float(*f),
    }
}

pub fn is_exact(n: &Number) -> bool {
    !matches!(n, Number::Float(_))
}

/// representation name as observed through the public enum
pub fn rep(n: &Number) -> &'static str {
    match n {
        Number::Fixnum(i) => {
            if i32::try_from(*i).is_ok() {
                "fix32"
            } else {
                "fix64"
            }
        }
        Number::BigInt(_) => "big",
        Number::Rational(r) => {
            if r.is_integer() {
                "ratint"
            } else {
                "rat"
            }
        }
        Number::Float(_) => "flo",
    }
}

/// Is the exact value representable as an exact marwood number? Integers always (bignum);
/// non-integers iff numerator and denominator (lowest terms) fit in i32.
pub fn representable(v: &BigRational) -> bool {
    if v.is_integer() {
        return true;
    }
    v.numer().to_i32().is_some() && v.denom().to_i32().is_some()
}

pub fn abs(v: &BigRational) -> BigRational {
    v.abs()
}

pub fn pow2(e: i32) -> BigRational {
    if e >= 0 {
        BigRational::from_integer(BigInt::one() << (e as usize))
    } else {
        BigRational::new(BigInt::one(), BigInt::one() << ((-e) as usize))
    }
}

pub fn zero() -> BigRational {
    BigRational::zero()
}

pub fn show(v: &BigRational) -> String {
    let s = v.to_string();
    if s.len() > 80 {
        format!("{}…({} digits)", &s[..40], s.len())
    } else {
        s
    }
}

pub fn floor(v: &BigRational) -> BigRational {
    v.floor()
}
pub fn ceil(v: &BigRational) -> BigRational {
    v.ceil()
}
pub fn trunc(v: &BigRational) -> BigRational {
    v.trunc()
}
