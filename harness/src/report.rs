//! Per-shard report: what was explored, what was observed, and any violations.
use crate::json::Json;
use std::collections::{BTreeMap, HashSet};
use std::io::Write;
use std::sync::Mutex;

/// Violations are also appended, as they are found, to a side file next to the shard report, so that
/// what a monitor observed is not lost when the monitored code later kills the worker process
/// (native stack overflow, abort). The orchestrator reads it only for shards that died.
static STREAM: Mutex<Option<std::fs::File>> = Mutex::new(None);

pub fn set_stream(path: &str) {
    if let Ok(f) = std::fs::File::create(path) {
        *STREAM.lock().unwrap() = Some(f);
    }
}

fn stream(sig: &str, detail: &str, witness: &Json, case: (u64, u64)) {
    if let Ok(mut g) = STREAM.lock() {
        if let Some(f) = g.as_mut() {
            let js = Json::obj().set("sig", sig).set("detail", detail).set("witness", witness.clone()).set("shard", case.0).set("index", case.1);
            let _ = writeln!(f, "{}", js.to_string());
            let _ = f.flush();
        }
    }
}

/// A monitor running inside an evaluation (a collection observer) found a violation: record it at
/// once, the evaluation may not return.
pub fn emergency(sig: &str, detail: &str) {
    stream(sig, detail, &Json::obj().set("note", "recorded by a monitor inside a running evaluation; the worker may have died afterwards"), (u64::MAX, u64::MAX));
}

#[derive(Clone, Debug)]
pub struct Violation {
    /// stable signature from a closed vocabulary (see DESIGN.md 5.2)
    pub sig: String,
    /// human-readable description: expected vs got
    pub detail: String,
    /// the witness: program / history / input, enough to replay
    pub witness: Json,
    /// (shard, index) of the generated case, for regeneration
    pub case: (u64, u64),
}

#[derive(Debug)]
pub struct Report {
    pub engine: String,
    pub evaluations: u64,
    /// hashes of distinct non-trivial cases
    pub distinct: HashSet<u64>,
    pub violations: Vec<Violation>,
    pub samples: Vec<Json>,
    /// named counters of what the monitors actually saw
    pub observed: BTreeMap<String, u64>,
    /// named sets (small vocabularies) of what was seen, e.g. opcodes, representation pairs
    pub seen: BTreeMap<String, std::collections::BTreeSet<String>>,
    pub inconclusive: u64,
    pub inconclusive_notes: Vec<String>,
    pub exhaustive: bool,
    pub max_samples: usize,
    pub max_violations: usize,
}

impl Report {
    pub fn new(engine: &str) -> Report {
        Report {
            engine: engine.to_string(),
            evaluations: 0,
            distinct: HashSet::new(),
            violations: vec![],
            samples: vec![],
            observed: BTreeMap::new(),
            seen: BTreeMap::new(),
            inconclusive: 0,
            inconclusive_notes: vec![],
            exhaustive: false,
            max_samples: 6,
            max_violations: 200,
        }
    }
    pub fn count(&mut self, key: &str, n: u64) {
        *self.observed.entry(key.to_string()).or_insert(0) += n;
    }
    pub fn max(&mut self, key: &str, n: u64) {
        let e = self.observed.entry(key.to_string()).or_insert(0);
        if n > *e {
            *e = n;
        }
    }
    pub fn see(&mut self, key: &str, v: &str) {
        let e = self.seen.entry(key.to_string()).or_default();
        if e.len() < 400 {
            e.insert(v.to_string());
        }
    }
    pub fn nontrivial(&mut self, h: u64) {
        self.distinct.insert(h);
    }
    pub fn sample<T: Into<Json>>(&mut self, s: T) {
        if self.samples.len() < self.max_samples {
            self.samples.push(s.into());
        }
    }
    pub fn want_sample(&self) -> bool {
        self.samples.len() < self.max_samples
    }
    pub fn inconclusive(&mut self, note: &str) {
        self.inconclusive += 1;
        if self.inconclusive_notes.len() < 20 {
            self.inconclusive_notes.push(note.to_string());
        }
    }
    pub fn violation(&mut self, sig: &str, detail: String, witness: Json, case: (u64, u64)) {
        self.count("violations_raw", 1);
        // keep at most 3 witnesses per signature
        let same = self.violations.iter().filter(|v| v.sig == sig).count();
        if same < 3 && self.violations.len() < self.max_violations {
            stream(sig, &detail, &witness, case);
            self.violations.push(Violation { sig: sig.to_string(), detail, witness, case });
        }
    }
    pub fn to_json(&self, hash_cap: usize) -> Json {
        let mut hashes: Vec<u64> = self.distinct.iter().cloned().collect();
        hashes.sort();
        let capped = hashes.len() > hash_cap;
        hashes.truncate(hash_cap);
        let mut seen = Json::obj();
        for (k, v) in &self.seen {
            seen.put(k, Json::Arr(v.iter().map(|s| Json::Str(s.clone())).collect()));
        }
        let mut obs = Json::obj();
        for (k, v) in &self.observed {
            obs.put(k, *v);
        }
        Json::obj()
            .set("engine", self.engine.as_str())
            .set("evaluations", self.evaluations)
            .set("distinct_count", self.distinct.len())
            .set("distinct_hashes", Json::Arr(hashes.into_iter().map(|h| Json::Str(format!("{:016x}", h))).collect()))
            .set("distinct_capped", capped)
            .set(
                "violations",
                Json::Arr(
                    self.violations
                        .iter()
                        .map(|v| {
                            Json::obj()
                                .set("sig", v.sig.as_str())
                                .set("detail", v.detail.as_str())
                                .set("witness", v.witness.clone())
                                .set("shard", v.case.0)
                                .set("index", v.case.1)
                        })
                        .collect(),
                ),
            )
            .set("samples", Json::Arr(self.samples.clone()))
            .set("observed", obs)
            .set("seen", seen)
            .set("inconclusive", self.inconclusive)
            .set("inconclusive_notes", Json::Arr(self.inconclusive_notes.iter().map(|s| Json::Str(s.clone())).collect()))
            .set("exhaustive", self.exhaustive)
    }
}

impl Report {
    /// Merge a child's report (as produced by `to_json`) into this one.
    pub fn merge_json(&mut self, js: &Json) {
        self.evaluations += js.get("evaluations").and_then(|v| v.as_u64()).unwrap_or(0);
        if let Some(a) = js.get("distinct_hashes").and_then(|v| v.as_arr()) {
            for h in a {
                if let Some(s) = h.as_str() {
                    if let Ok(v) = u64::from_str_radix(s, 16) {
                        self.distinct.insert(v);
                    }
                }
            }
        }
        if let Some(Json::Obj(m)) = js.get("observed") {
            for (k, v) in m {
                let n = v.as_u64().unwrap_or(0);
                if k.starts_with("max_") {
                    self.max(k, n);
                } else {
                    self.count(k, n);
                }
            }
        }
        if let Some(Json::Obj(m)) = js.get("seen") {
            for (k, v) in m {
                if let Some(a) = v.as_arr() {
                    for s in a {
                        if let Some(s) = s.as_str() {
                            self.see(k, s);
                        }
                    }
                }
            }
        }
        if let Some(a) = js.get("samples").and_then(|v| v.as_arr()) {
            for s in a {
                self.sample(s.clone());
            }
        }
        if let Some(a) = js.get("violations").and_then(|v| v.as_arr()) {
            for v in a {
                let sig = v.get("sig").and_then(|s| s.as_str()).unwrap_or("?").to_string();
                let detail = v.get("detail").and_then(|s| s.as_str()).unwrap_or("").to_string();
                let witness = v.get("witness").cloned().unwrap_or(Json::Null);
                let shard = v.get("shard").and_then(|s| s.as_u64()).unwrap_or(0);
                let index = v.get("index").and_then(|s| s.as_u64()).unwrap_or(0);
                let same = self.violations.iter().filter(|x| x.sig == sig).count();
                if same < 3 && self.violations.len() < self.max_violations {
                    self.violations.push(Violation { sig, detail, witness, case: (shard, index) });
                }
            }
        }
        self.inconclusive += js.get("inconclusive").and_then(|v| v.as_u64()).unwrap_or(0);
        if let Some(a) = js.get("inconclusive_notes").and_then(|v| v.as_arr()) {
            for s in a {
                if let Some(s) = s.as_str() {
                    if self.inconclusive_notes.len() < 20 {
                        self.inconclusive_notes.push(s.to_string());
                    }
                }
            }
        }
    }
}
