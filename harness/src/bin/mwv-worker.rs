use mwv::{engines, Ctx, Tier};
use std::io::Write;

#[global_allocator]
static GLOBAL: mwv::alloc::Counting = mwv::alloc::Counting;

fn usage() -> ! {
    eprintln!("usage: mwv-worker <engine> [--seed N] [--shard I] [--nshards N] [--tier quick|thorough] [--replay INDEX] [--build NAME] [--scale F] [--arg S] [--out FILE]");
    std::process::exit(2)
}

fn main() {
    let args: Vec<String> = std::env::args().collect();
    if args.len() < 2 {
        usage();
    }
    let engine = args[1].clone();
    let mut ctx = Ctx { seed: 1, shard: 0, nshards: 1, tier: Tier::Quick, replay: None, build: "release".into(), scale: 1.0, arg: None, witness: None };
    let mut out: Option<String> = None;
    let mut child_report = false;
    let mut i = 2;
    while i < args.len() {
        let v = args.get(i + 1).cloned();
        match args[i].as_str() {
            "--seed" => ctx.seed = v.unwrap().parse().unwrap(),
            "--shard" => ctx.shard = v.unwrap().parse().unwrap(),
            "--nshards" => ctx.nshards = v.unwrap().parse().unwrap(),
            "--tier" => ctx.tier = if v.unwrap() == "thorough" { Tier::Thorough } else { Tier::Quick },
            "--replay" => ctx.replay = Some(v.unwrap().parse().unwrap()),
            "--build" => ctx.build = v.unwrap(),
            "--scale" => ctx.scale = v.unwrap().parse().unwrap(),
            "--arg" => ctx.arg = v,
            "--out" => out = v,
            "--child-report" => child_report = true,
            "--witness" => {
                let txt = std::fs::read_to_string(v.unwrap()).expect("witness file");
                let js = mwv::json::parse(&txt).expect("witness json");
                ctx.witness = Some(js.get("witness").cloned().unwrap_or(js));
            }
            _ => usage(),
        }
        i += 2;
    }
    mwv::mw::install_panic_recorder();
    if let (Some(path), false) = (&out, child_report) {
        mwv::report::set_stream(&format!("{}.partial", path));
    }
    let rep = match engines::run(&engine, &ctx) {
        Some(r) => r,
        None => {
            eprintln!("unknown engine {}", engine);
            std::process::exit(2)
        }
    };
    let js = rep.to_json(400_000).to_string();
    if child_report {
        let so = std::io::stdout();
        let mut so = so.lock();
        so.write_all(b"R ").unwrap();
        so.write_all(js.as_bytes()).unwrap();
        so.write_all(b"\n").unwrap();
        so.flush().unwrap();
        return;
    }
    match out {
        Some(path) => {
            let tmp = format!("{}.tmp", path);
            std::fs::write(&tmp, js).unwrap();
            std::fs::rename(&tmp, &path).unwrap();
        }
        None => {
            let so = std::io::stdout();
            let mut so = so.lock();
            so.write_all(js.as_bytes()).unwrap();
            so.write_all(b"\n").unwrap();
        }
    }
}
