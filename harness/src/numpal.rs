//! Boundary-biased numeric palettes shared by C08 / C09 / C16.
use crate::numoracle as no;
use crate::rng::Rng;
use marwood::cell::Cell;
use marwood::number::Number;
use num::bigint::BigInt;
use num::{BigRational, One, Rational32, ToPrimitive};

#[derive(Clone, Debug)]
pub struct Carrier {
    pub num: Number,
    /// exact value; None for NaN/inf
    pub value: Option<BigRational>,
    pub rep: &'static str,
    /// how it was produced: "injected" (Cell handed to Vm::eval) or "scheme:<expr>"
    pub origin: String,
}

impl Carrier {
    pub fn new(num: Number, origin: &str) -> Carrier {
        let value = no::exact(&num);
        let rep = no::rep(&num);
        Carrier { num, value, rep, origin: origin.to_string() }
    }
    pub fn cell(&self) -> Cell {
        Cell::Number(self.num.clone())
    }
    pub fn show(&self) -> String {
        format!("{}[{}]", trunc(&format!("{}", self.num)), self.rep)
    }
}

pub fn trunc(s: &str) -> String {
    if s.len() > 48 {
        format!("{}…({} chars)", &s[..24], s.len())
    } else {
        s.to_string()
    }
}

fn big(bits: usize) -> BigInt {
    BigInt::one() << bits
}

pub fn random_bits(rng: &mut Rng, bits: usize) -> BigInt {
    let mut r = BigInt::from(0);
    let words = (bits + 63) / 64;
    for _ in 0..words {
        r = (r << 64usize) + BigInt::from(rng.next_u64());
    }
    let extra = words * 64 - bits;
    let r = r >> extra;
    if rng.bool() {
        -r
    } else {
        r
    }
}

/// integer values of the palette (boundary part is fixed, random part depends on rng)
pub fn integer_values(rng: &mut Rng, n_random: usize) -> Vec<BigInt> {
    let mut v: Vec<BigInt> = vec![];
    for k in [0i64, 1, -1, 2, -2, 3, 7, -10, 100] {
        v.push(BigInt::from(k));
    }
    for bits in [31usize, 32, 53, 63, 64] {
        for d in -2i64..=2 {
            v.push(big(bits) + d);
            v.push(-big(bits) + d);
        }
    }
    for _ in 0..n_random {
        let bits = *rng.pick(&[16usize, 31, 32, 33, 48, 62, 63, 64, 65, 100, 128, 200, 256]);
        v.push(random_bits(rng, bits));
    }
    v.sort();
    v.dedup();
    v
}

/// every representation that can carry integer v
pub fn integer_carriers(v: &BigInt) -> Vec<Carrier> {
    let mut out = vec![];
    if let Some(i) = v.to_i64() {
        out.push(Carrier::new(Number::Fixnum(i), "injected"));
    }
    out.push(Carrier::new(Number::new_bigint(v.clone()), "injected"));
    if let Some(i) = v.to_i32() {
        out.push(Carrier::new(Number::Rational(Rational32::from_integer(i)), "injected"));
    }
    out
}

pub fn rational_carriers(rng: &mut Rng, n_random: usize) -> Vec<Carrier> {
    let m = i32::MAX;
    let mut pairs: Vec<(i32, i32)> = vec![
        (1, 2),
        (-1, 2),
        (1, 3),
        (2, 3),
        (-7, 3),
        (22, 7),
        (m, 2),
        (-m, 2),
        (1, m),
        (-1, m),
        (m, m - 1),
        (m - 1, m),
        (-(m - 1), m),
        (i32::MIN + 1, 2),
        (i32::MIN, 3),
        (3, 1 << 30),
        (1 << 30, 3),
        (65537, 65536),
        (46341, 46340),
        // partners that make every representation-pair fallback show at every seed
        (-1, 3),
        (-16, 153),
        (225, 4),
        (27, 44),
        (-2147483647, 2),
    ];
    for _ in 0..n_random {
        let n = if rng.bool() { rng.range(-(m as i64), m as i64) as i32 } else { rng.range(-1000, 1000) as i32 };
        let d = if rng.bool() { rng.range(2, m as i64) as i32 } else { rng.range(2, 1000) as i32 };
        pairs.push((n, d));
    }
    let mut out = vec![];
    for (n, d) in pairs {
        let r = Rational32::new(n, d);
        if r.is_integer() {
            continue;
        }
        out.push(Carrier::new(Number::Rational(r), "injected"));
    }
    out
}

/// exact palette of C08
pub fn exact_palette(rng: &mut Rng, n_random_ints: usize, n_random_rats: usize) -> Vec<Carrier> {
    let mut out = vec![];
    for v in integer_values(rng, n_random_ints) {
        out.extend(integer_carriers(&v));
    }
    out.extend(rational_carriers(rng, n_random_rats));
    out
}

fn adj(f: f64, d: i64) -> f64 {
    if f == 0.0 || !f.is_finite() {
        return f;
    }
    f64::from_bits((f.to_bits() as i64 + d) as u64)
}

/// floats of C09: integers near 2^53 and 2^63, +-0.0, subnormals, +-inf, and the doubles adjacent to
/// every exact palette member
pub fn float_carriers(rng: &mut Rng, exact: &[Carrier], n_random: usize) -> Vec<Carrier> {
    let mut fs: Vec<f64> = vec![0.0, -0.0, 1.0, -1.0, 0.5, -0.5, 0.1, 1.5, f64::INFINITY, f64::NEG_INFINITY, f64::MAX, f64::MIN, f64::MIN_POSITIVE, 5e-324, -5e-324];
    for e in [31i32, 32, 52, 53, 62, 63, 64] {
        let p = 2f64.powi(e);
        for d in -2..=2 {
            fs.push(adj(p, d));
            fs.push(-adj(p, d));
        }
        if e <= 53 {
            fs.push(p + 1.0);
            fs.push(p - 1.0);
            fs.push(p + 0.5);
        }
    }
    for c in exact {
        if let Some(f) = c.num.to_f64() {
            if f.is_finite() {
                fs.push(f);
                fs.push(adj(f, 1));
                fs.push(adj(f, -1));
            }
        }
    }
    for _ in 0..n_random {
        fs.push(crate::engines::c10::gen_f64(rng));
    }
    let mut seen = std::collections::HashSet::new();
    let mut out = vec![];
    for f in fs {
        if f.is_nan() {
            continue;
        }
        if seen.insert(f.to_bits()) {
            out.push(Carrier::new(Number::Float(f), "injected"));
        }
    }
    out
}
