//! Minimal JSON value + writer (no external crates are available).
use std::collections::BTreeMap;

#[derive(Clone, Debug, PartialEq)]
pub enum Json {
    Null,
    Bool(bool),
    Int(i64),
    UInt(u64),
    Num(f64),
    Str(String),
    Arr(Vec<Json>),
    Obj(BTreeMap<String, Json>),
}

impl Json {
    pub fn obj() -> Json {
        Json::Obj(BTreeMap::new())
    }
    pub fn set<T: Into<Json>>(mut self, k: &str, v: T) -> Json {
        if let Json::Obj(m) = &mut self {
            m.insert(k.to_string(), v.into());
        }
        self
    }
    pub fn put<T: Into<Json>>(&mut self, k: &str, v: T) {
        if let Json::Obj(m) = self {
            m.insert(k.to_string(), v.into());
        }
    }
    pub fn to_string(&self) -> String {
        let mut s = String::new();
        self.write(&mut s);
        s
    }
    fn write(&self, out: &mut String) {
        match self {
            Json::Null => out.push_str("null"),
            Json::Bool(b) => out.push_str(if *b { "true" } else { "false" }),
            Json::Int(i) => out.push_str(&i.to_string()),
            Json::UInt(i) => out.push_str(&i.to_string()),
            Json::Num(f) => {
                if f.is_finite() {
                    out.push_str(&format!("{}", f));
                } else {
                    out.push_str("null");
                }
            }
            Json::Str(s) => write_str(s, out),
            Json::Arr(a) => {
                out.push('[');
                for (i, v) in a.iter().enumerate() {
                    if i > 0 {
                        out.push(',');
                    }
                    v.write(out);
                }
                out.push(']');
            }
            Json::Obj(m) => {
                out.push('{');
                for (i, (k, v)) in m.iter().enumerate() {
                    if i > 0 {
                        out.push(',');
                    }
                    write_str(k, out);
                    out.push(':');
                    v.write(out);
                }
                out.push('}');
            }
        }
    }
}

fn write_str(s: &str, out: &mut String) {
    out.push('"');
    for c in s.chars() {
        match c {
            '"' => out.push_str("\\\""),
            '\\' => out.push_str("\\\\"),
            '\n' => out.push_str("\\n"),
            '\r' => out.push_str("\\r"),
            '\t' => out.push_str("\\t"),
            c if (c as u32) < 0x20 || c as u32 == 0x7f => out.push_str(&format!("\\u{:04x}", c as u32)),
            c if (c as u32) > 0xFFFF => {
                let v = c as u32 - 0x10000;
                out.push_str(&format!("\\u{:04x}\\u{:04x}", 0xD800 + (v >> 10), 0xDC00 + (v & 0x3FF)));
            }
            c if (c as u32) >= 0x7f => out.push_str(&format!("\\u{:04x}", c as u32)),
            c => out.push(c),
        }
    }
    out.push('"');
}

impl From<bool> for Json {
    fn from(v: bool) -> Json {
        Json::Bool(v)
    }
}
impl From<i64> for Json {
    fn from(v: i64) -> Json {
        Json::Int(v)
    }
}
impl From<i32> for Json {
    fn from(v: i32) -> Json {
        Json::Int(v as i64)
    }
}
impl From<u64> for Json {
    fn from(v: u64) -> Json {
        Json::UInt(v)
    }
}
impl From<usize> for Json {
    fn from(v: usize) -> Json {
        Json::UInt(v as u64)
    }
}
impl From<f64> for Json {
    fn from(v: f64) -> Json {
        Json::Num(v)
    }
}
impl From<&str> for Json {
    fn from(v: &str) -> Json {
        Json::Str(v.to_string())
    }
}
impl From<String> for Json {
    fn from(v: String) -> Json {
        Json::Str(v)
    }
}
impl From<&String> for Json {
    fn from(v: &String) -> Json {
        Json::Str(v.clone())
    }
}
impl<T: Into<Json>> From<Vec<T>> for Json {
    fn from(v: Vec<T>) -> Json {
        Json::Arr(v.into_iter().map(|x| x.into()).collect())
    }
}

// ---- minimal parser (for replay files) ----
pub fn parse(s: &str) -> Option<Json> {
    let b: Vec<char> = s.chars().collect();
    let mut p = 0usize;
    let v = parse_value(&b, &mut p)?;
    skip_ws(&b, &mut p);
    if p == b.len() {
        Some(v)
    } else {
        None
    }
}

fn skip_ws(b: &[char], p: &mut usize) {
    while *p < b.len() && b[*p].is_whitespace() {
        *p += 1;
    }
}

fn parse_value(b: &[char], p: &mut usize) -> Option<Json> {
    skip_ws(b, p);
    match b.get(*p)? {
        '{' => {
            *p += 1;
            let mut m = BTreeMap::new();
            skip_ws(b, p);
            if b.get(*p) == Some(&'}') {
                *p += 1;
                return Some(Json::Obj(m));
            }
            loop {
                skip_ws(b, p);
                let k = match parse_value(b, p)? {
                    Json::Str(s) => s,
                    _ => return None,
                };
                skip_ws(b, p);
                if b.get(*p) != Some(&':') {
                    return None;
                }
                *p += 1;
                let v = parse_value(b, p)?;
                m.insert(k, v);
                skip_ws(b, p);
                match b.get(*p)? {
                    ',' => *p += 1,
                    '}' => {
                        *p += 1;
                        return Some(Json::Obj(m));
                    }
                    _ => return None,
                }
            }
        }
        '[' => {
            *p += 1;
            let mut a = vec![];
            skip_ws(b, p);
            if b.get(*p) == Some(&']') {
                *p += 1;
                return Some(Json::Arr(a));
            }
            loop {
                a.push(parse_value(b, p)?);
                skip_ws(b, p);
                match b.get(*p)? {
                    ',' => *p += 1,
                    ']' => {
                        *p += 1;
                        return Some(Json::Arr(a));
                    }
                    _ => return None,
                }
            }
        }
        '"' => {
            *p += 1;
            let mut s = String::new();
            loop {
                let c = *b.get(*p)?;
                *p += 1;
                match c {
                    '"' => return Some(Json::Str(s)),
                    '\\' => {
                        let e = *b.get(*p)?;
                        *p += 1;
                        match e {
                            'n' => s.push('\n'),
                            'r' => s.push('\r'),
                            't' => s.push('\t'),
                            'b' => s.push('\u{8}'),
                            'f' => s.push('\u{c}'),
                            'u' => {
                                let hex: String = b.get(*p..*p + 4)?.iter().collect();
                                *p += 4;
                                let mut v = u32::from_str_radix(&hex, 16).ok()?;
                                if (0xD800..0xDC00).contains(&v) && b.get(*p) == Some(&'\\') && b.get(*p + 1) == Some(&'u') {
                                    let hex2: String = b.get(*p + 2..*p + 6)?.iter().collect();
                                    let lo = u32::from_str_radix(&hex2, 16).ok()?;
                                    *p += 6;
                                    v = 0x10000 + ((v - 0xD800) << 10) + (lo - 0xDC00);
                                }
                                s.push(char::from_u32(v).unwrap_or('\u{fffd}'));
                            }
                            other => s.push(other),
                        }
                    }
                    c => s.push(c),
                }
            }
        }
        't' => {
            *p += 4;
            Some(Json::Bool(true))
        }
        'f' => {
            *p += 5;
            Some(Json::Bool(false))
        }
        'n' => {
            *p += 4;
            Some(Json::Null)
        }
        _ => {
            let start = *p;
            while *p < b.len() && (b[*p].is_ascii_digit() || matches!(b[*p], '-' | '+' | '.' | 'e' | 'E')) {
                *p += 1;
            }
            let t: String = b[start..*p].iter().collect();
            if let Ok(i) = t.parse::<i64>() {
                Some(Json::Int(i))
            } else if let Ok(u) = t.parse::<u64>() {
                Some(Json::UInt(u))
            } else {
                t.parse::<f64>().ok().map(Json::Num)
            }
        }
    }
}

impl Json {
    pub fn get(&self, k: &str) -> Option<&Json> {
        match self {
            Json::Obj(m) => m.get(k),
            _ => None,
        }
    }
    pub fn as_str(&self) -> Option<&str> {
        match self {
            Json::Str(s) => Some(s),
            _ => None,
        }
    }
    pub fn as_u64(&self) -> Option<u64> {
        match self {
            Json::Int(i) if *i >= 0 => Some(*i as u64),
            Json::UInt(u) => Some(*u),
            _ => None,
        }
    }
    pub fn as_arr(&self) -> Option<&Vec<Json>> {
        match self {
            Json::Arr(a) => Some(a),
            _ => None,
        }
    }
}
