//! Process sandbox: run a range of cases in a child process (the same executable), journal the case
//! index before each case, detect death by signal / idle timeout, identify the culprit case
//! deterministically, confirm it in isolation, and resume after it. A crash or hang therefore
//! never masks the rest of the workload and never becomes a verdict unless it is reproduced.
use crate::json::{self, Json};
use crate::report::Report;
use crate::Ctx;
use std::io::{BufRead, BufReader, Write};
use std::os::unix::process::{CommandExt, ExitStatusExt};
use std::process::{Command, Stdio};
use std::sync::mpsc;
use std::time::{Duration, Instant};

#[derive(Clone, Debug, PartialEq)]
pub enum Exit {
    Code(i32),
    Signal(i32),
    IdleTimeout,
    TotalTimeout,
}

pub struct ChildOutcome {
    pub exit: Exit,
    pub stderr_tail: String,
}

pub struct Limits {
    pub stack_kib: Option<u64>,
    pub as_kib: Option<u64>,
}

/// Spawn `exe args…`, stream stdout lines to `on_line`; kill on idle or total timeout.
pub fn spawn(args: &[String], limits: &Limits, idle: Duration, total: Duration, mut on_line: impl FnMut(&str)) -> ChildOutcome {
    let exe = std::env::current_exe().expect("current_exe");
    let mut cmd = Command::new(exe);
    cmd.args(args).stdin(Stdio::null()).stdout(Stdio::piped()).stderr(Stdio::piped());
    let stack = limits.stack_kib;
    let asl = limits.as_kib;
    unsafe {
        cmd.pre_exec(move || {
            let zero = libc::rlimit { rlim_cur: 0, rlim_max: 0 };
            libc::setrlimit(libc::RLIMIT_CORE, &zero);
            if let Some(k) = stack {
                let l = libc::rlimit { rlim_cur: k * 1024, rlim_max: k * 1024 };
                libc::setrlimit(libc::RLIMIT_STACK, &l);
            }
            if let Some(k) = asl {
                let l = libc::rlimit { rlim_cur: k * 1024, rlim_max: k * 1024 };
                libc::setrlimit(libc::RLIMIT_AS, &l);
            }
            Ok(())
        });
    }
    let mut child = cmd.spawn().expect("spawn child");
    let stdout = child.stdout.take().unwrap();
    let stderr = child.stderr.take().unwrap();
    let (tx, rx) = mpsc::channel::<Option<String>>();
    let t_out = std::thread::spawn(move || {
        let r = BufReader::new(stdout);
        for line in r.lines() {
            match line {
                Ok(l) => {
                    if tx.send(Some(l)).is_err() {
                        break;
                    }
                }
                Err(_) => break,
            }
        }
        let _ = tx.send(None);
    });
    let t_err = std::thread::spawn(move || {
        let mut tail = String::new();
        let r = BufReader::new(stderr);
        for line in r.split(b'\n') {
            if let Ok(l) = line {
                let l = String::from_utf8_lossy(&l);
                tail.push_str(&l);
                tail.push('\n');
                if tail.len() > 4000 {
                    let cut = tail.len() - 2000;
                    let mut c = cut;
                    while !tail.is_char_boundary(c) {
                        c += 1;
                    }
                    tail = tail[c..].to_string();
                }
            }
        }
        tail
    });
    let start = Instant::now();
    let mut exit: Option<Exit> = None;
    loop {
        match rx.recv_timeout(idle) {
            Ok(Some(l)) => on_line(&l),
            Ok(None) => break,
            Err(mpsc::RecvTimeoutError::Timeout) => {
                let _ = child.kill();
                exit = Some(Exit::IdleTimeout);
                break;
            }
            Err(mpsc::RecvTimeoutError::Disconnected) => break,
        }
        if start.elapsed() > total {
            let _ = child.kill();
            exit = Some(Exit::TotalTimeout);
            break;
        }
    }
    let status = child.wait().expect("wait");
    // drain
    while let Ok(Some(l)) = rx.try_recv() {
        on_line(&l);
    }
    let _ = t_out.join();
    let stderr_tail = t_err.join().unwrap_or_default();
    let exit = exit.unwrap_or_else(|| match status.code() {
        Some(c) => Exit::Code(c),
        None => Exit::Signal(status.signal().unwrap_or(0)),
    });
    ChildOutcome { exit, stderr_tail }
}

/// Called by an engine running in child mode before each case.
pub fn journal_begin(index: u64) {
    let so = std::io::stdout();
    let mut so = so.lock();
    let _ = writeln!(so, "B {}", index);
    let _ = so.flush();
}

/// Child-mode range encoded in ctx.arg as "child:<start>:<end>[:rest]".
pub fn child_range(ctx: &Ctx) -> Option<(u64, u64)> {
    let a = ctx.arg.as_ref()?;
    let mut it = a.split(':');
    if it.next()? != "child" {
        return None;
    }
    let s = it.next()?.parse().ok()?;
    let e = it.next()?.parse().ok()?;
    Some((s, e))
}

pub fn child_args(ctx: &Ctx, engine: &str, start: u64, end: u64, extra: Option<&str>) -> Vec<String> {
    let mut arg = format!("child:{}:{}", start, end);
    if let Some(x) = extra {
        arg.push(':');
        arg.push_str(x);
    }
    vec![
        engine.to_string(),
        "--seed".into(),
        ctx.seed.to_string(),
        "--shard".into(),
        ctx.shard.to_string(),
        "--nshards".into(),
        ctx.nshards.to_string(),
        "--tier".into(),
        if ctx.quick() { "quick".into() } else { "thorough".into() },
        "--build".into(),
        ctx.build.clone(),
        "--scale".into(),
        ctx.scale.to_string(),
        "--arg".into(),
        arg,
        "--child-report".into(),
        "1".into(),
    ]
}

#[derive(Clone, Debug)]
pub struct Culprit {
    pub index: u64,
    pub exit: Exit,
    pub confirmed: bool,
    pub stderr_tail: String,
}

pub struct DriveCfg {
    pub segment: u64,
    pub idle: Duration,
    pub limits: Limits,
    pub extra: Option<String>,
}

/// Run cases 0..total in child segments; merge child reports into `rep`; return the culprits
/// (cases whose child died or hung), each re-run alone twice with a tripled idle budget.
pub fn drive(ctx: &Ctx, engine: &str, total: u64, cfg: &DriveCfg, rep: &mut Report) -> Vec<Culprit> {
    drive_from(ctx, engine, 0, total, cfg, rep)
}

/// Same over the index range lo..total.
pub fn drive_from(ctx: &Ctx, engine: &str, lo: u64, total: u64, cfg: &DriveCfg, rep: &mut Report) -> Vec<Culprit> {
    let mut culprits = vec![];
    let mut next = lo;
    while next < total {
        let seg_end = (next + cfg.segment).min(total);
        let mut cur = next;
        while cur < seg_end {
            let mut last_begun: Option<u64> = None;
            let mut finished = false;
            let args = child_args(ctx, engine, cur, seg_end, cfg.extra.as_deref());
            let out = spawn(&args, &cfg.limits, cfg.idle, Duration::from_secs(3600), |l| {
                if let Some(r) = l.strip_prefix("B ") {
                    last_begun = r.trim().parse().ok();
                } else if let Some(r) = l.strip_prefix("R ") {
                    if let Some(js) = json::parse(r) {
                        rep.merge_json(&js);
                        finished = true;
                    }
                }
            });
            if finished && out.exit == Exit::Code(0) {
                cur = seg_end;
                continue;
            }
            // the child died or hung: culprit is the last case it began
            let idx = match last_begun {
                Some(i) => i,
                None => {
                    rep.inconclusive(&format!("child for {}..{} failed before its first case: {:?} {}", cur, seg_end, out.exit, tail(&out.stderr_tail)));
                    cur = seg_end;
                    continue;
                }
            };
            rep.count("sandbox_child_deaths", 1);
            // confirm in isolation, twice, with a tripled idle budget
            let mut repro = 0;
            let mut last_exit = out.exit.clone();
            let mut last_tail = out.stderr_tail.clone();
            for _ in 0..2 {
                let args1 = child_args(ctx, engine, idx, idx + 1, cfg.extra.as_deref());
                let mut fin = false;
                let o = spawn(&args1, &cfg.limits, cfg.idle * 3, Duration::from_secs(3600), |l| {
                    if l.starts_with("R ") {
                        fin = true;
                    }
                });
                if !(fin && o.exit == Exit::Code(0)) {
                    repro += 1;
                    last_exit = o.exit.clone();
                    last_tail = o.stderr_tail.clone();
                }
            }
            let confirmed = repro == 2;
            if !confirmed {
                rep.inconclusive(&format!("case {} killed its child ({:?}) but did not reproduce in isolation ({}/2)", idx, out.exit, repro));
            }
            culprits.push(Culprit { index: idx, exit: last_exit, confirmed, stderr_tail: last_tail });
            cur = idx + 1;
        }
        next = seg_end;
    }
    culprits
}

fn tail(s: &str) -> String {
    let n = s.len().saturating_sub(300);
    let mut c = n;
    while !s.is_char_boundary(c) {
        c += 1;
    }
    s[c..].to_string()
}

pub fn exit_class(e: &Exit) -> String {
    match e {
        Exit::Code(c) => format!("exit-code-{}", c),
        Exit::Signal(6) => "abort:SIGABRT".into(),
        Exit::Signal(11) => "abort:SIGSEGV".into(),
        Exit::Signal(9) => "killed:SIGKILL".into(),
        Exit::Signal(s) => format!("signal-{}", s),
        Exit::IdleTimeout => "hang".into(),
        Exit::TotalTimeout => "total-timeout".into(),
    }
}

/// classify stderr of a dead child
pub fn death_kind(e: &Exit, stderr: &str) -> String {
    if stderr.contains("has overflowed its stack") {
        return "native-stack-overflow".into();
    }
    if stderr.contains("memory allocation of") {
        return "alloc-failure-abort".into();
    }
    exit_class(e)
}

pub fn json_of(c: &Culprit) -> Json {
    Json::obj().set("index", c.index).set("exit", exit_class(&c.exit)).set("confirmed", c.confirmed).set("stderr_tail", tail(&c.stderr_tail))
}
