//! RefScheme — a small executable model of the Scheme subset the generators emit (DESIGN.md 4.1).
//!
//! A CEK machine: explicit environments (frames of *locations*), explicit immutable continuation
//! frames (so captured continuations are re-entrant for free), left-to-right operand evaluation,
//! operator evaluated after the operands. Derived forms are desugared here, independently of
//! marwood's macro expander. The model shares no code with marwood's compiler or VM; it uses
//! marwood's `Cell` only as the neutral S-expression type programs are handed over in.
use marwood::cell::Cell;
use marwood::number::Number;
use std::cell::RefCell;
use std::collections::HashMap;
use std::rc::Rc;

// ---------------------------------------------------------------------------------------------
// values
// ---------------------------------------------------------------------------------------------

pub type Sym = Rc<str>;

#[derive(Clone)]
pub enum Val {
    Int(i64),
    Bool(bool),
    Char(char),
    Str(Rc<RefCell<String>>),
    Sym(Sym),
    Nil,
    /// the unspecified value (result of define, set!, one-armed if, for-each, display, …)
    Unspec,
    /// a letrec / internal-definition location that has not been initialised yet
    Unassigned,
    Pair(Rc<(RefCell<Val>, RefCell<Val>)>),
    Vector(Rc<RefCell<Vec<Val>>>),
    Clo(Rc<Closure>),
    Prim(&'static Prim),
    Cont(Rc<K>),
    Promise(Rc<RefCell<PromiseState>>),
}

pub enum PromiseState {
    Delayed(Rc<Ast>, Env),
    Forced(Val),
}

pub struct Closure {
    pub def: Rc<LambdaDef>,
    pub env: Env,
}

pub struct LambdaDef {
    pub params: Vec<Sym>,
    pub rest: Option<Sym>,
    pub body: Vec<Rc<Ast>>,
    /// names defined by leading internal definitions (pre-bound as Unassigned on entry)
    pub internal: Vec<Sym>,
}

pub struct Prim {
    pub name: &'static str,
    pub min: usize,
    pub max: Option<usize>,
    pub f: PrimFn,
}

pub enum PrimFn {
    Pure(fn(&[Val]) -> Result<Val, Fail>),
    Special(Special),
}

#[derive(Clone, Copy, PartialEq)]
pub enum Special {
    Apply,
    CallCC,
    Eval,
    Error,
    Display,
    Write,
    Force,
}

// ---------------------------------------------------------------------------------------------
// comparison form of data and failures
// ---------------------------------------------------------------------------------------------

#[derive(Clone, Debug, PartialEq)]
pub enum D {
    Int(String),
    Bool(bool),
    Char(char),
    Str(String),
    Sym(String),
    Nil,
    Pair(Box<D>, Box<D>),
    Vector(Vec<D>),
    Proc,
    /// matches anything
    Unspec,
    /// something the model does not produce (inexact number, macro, …)
    Other(String),
}

impl D {
    /// structural match with Unspec as a wildcard on either side
    pub fn matches(&self, o: &D) -> bool {
        let mut a = self;
        let mut b = o;
        loop {
            match (a, b) {
                (D::Unspec, _) | (_, D::Unspec) => return true,
                (D::Pair(a1, a2), D::Pair(b1, b2)) => {
                    if !a1.matches(b1) {
                        return false;
                    }
                    a = a2;
                    b = b2;
                }
                (D::Vector(x), D::Vector(y)) => return x.len() == y.len() && x.iter().zip(y.iter()).all(|(p, q)| p.matches(q)),
                _ => return a == b,
            }
        }
    }
    pub fn show(&self) -> String {
        match self {
            D::Int(s) => s.clone(),
            D::Bool(true) => "#t".into(),
            D::Bool(false) => "#f".into(),
            D::Char(c) => format!("#\\{}", c),
            D::Str(s) => format!("{:?}", s),
            D::Sym(s) => s.clone(),
            D::Nil => "()".into(),
            D::Pair(_, _) => {
                let mut out = String::from("(");
                let mut cur = self;
                let mut first = true;
                let mut n = 0;
                loop {
                    match cur {
                        D::Pair(a, b) => {
                            if !first {
                                out.push(' ');
                            }
                            first = false;
                            out.push_str(&a.show());
                            cur = b;
                            n += 1;
                            if n > 200 {
                                out.push_str(" …");
                                break;
                            }
                        }
                        D::Nil => break,
                        other => {
                            out.push_str(" . ");
                            out.push_str(&other.show());
                            break;
                        }
                    }
                }
                out.push(')');
                out
            }
            D::Vector(v) => format!("#({})", v.iter().map(|d| d.show()).collect::<Vec<_>>().join(" ")),
            D::Proc => "#<procedure>".into(),
            D::Unspec => "#<unspecified>".into(),
            D::Other(s) => format!("#<other:{}>", s),
        }
    }
}

pub fn d_of_cell(c: &Cell) -> D {
    match c {
        Cell::Bool(b) => D::Bool(*b),
        Cell::Char(c) => D::Char(*c),
        Cell::Nil => D::Nil,
        Cell::Number(Number::Fixnum(i)) => D::Int(i.to_string()),
        Cell::Number(Number::BigInt(b)) => D::Int(b.to_string()),
        Cell::Number(Number::Rational(r)) if r.is_integer() => D::Int(r.to_integer().to_string()),
        Cell::Number(n) => D::Other(format!("number:{}", n)),
        Cell::Pair(_, _) => {
            // iterative along the cdr
            let mut items = vec![];
            let mut cur = c;
            while let Cell::Pair(a, b) = cur {
                items.push(d_of_cell(a));
                cur = b;
            }
            let mut tail = d_of_cell(cur);
            for it in items.into_iter().rev() {
                tail = D::Pair(Box::new(it), Box::new(tail));
            }
            tail
        }
        Cell::String(s) => D::Str(s.clone()),
        Cell::Symbol(s) => D::Sym(s.clone()),
        Cell::Vector(v) => D::Vector(v.iter().map(d_of_cell).collect()),
        Cell::Procedure(_) | Cell::Continuation => D::Proc,
        Cell::Void => D::Unspec,
        Cell::Undefined => D::Other("undefined".into()),
        Cell::Macro => D::Other("macro".into()),
    }
}

pub fn d_of_val(v: &Val) -> D {
    d_of_val_depth(v, 0)
}

fn d_of_val_depth(v: &Val, depth: usize) -> D {
    if depth > 200 {
        return D::Other("too-deep".into());
    }
    match v {
        Val::Int(i) => D::Int(i.to_string()),
        Val::Bool(b) => D::Bool(*b),
        Val::Char(c) => D::Char(*c),
        Val::Str(s) => D::Str(s.borrow().clone()),
        Val::Sym(s) => D::Sym(s.to_string()),
        Val::Nil => D::Nil,
        Val::Unspec => D::Unspec,
        Val::Unassigned => D::Other("unassigned".into()),
        Val::Pair(_) => {
            let mut items = vec![];
            let mut cur = v.clone();
            let mut n = 0;
            loop {
                let next = match &cur {
                    Val::Pair(p) => {
                        items.push(d_of_val_depth(&p.0.borrow(), depth + 1));
                        p.1.borrow().clone()
                    }
                    _ => break,
                };
                cur = next;
                n += 1;
                if n > 100_000 {
                    return D::Other("circular-or-huge".into());
                }
            }
            let mut tail = d_of_val_depth(&cur, depth + 1);
            for it in items.into_iter().rev() {
                tail = D::Pair(Box::new(it), Box::new(tail));
            }
            tail
        }
        Val::Vector(vs) => D::Vector(vs.borrow().iter().map(|x| d_of_val_depth(x, depth + 1)).collect()),
        Val::Clo(_) | Val::Prim(_) | Val::Cont(_) => D::Proc,
        Val::Promise(_) => D::Other("promise".into()),
    }
}

#[derive(Clone, Debug, PartialEq)]
pub enum FailClass {
    Unbound,
    NotAProcedure,
    WrongArity,
    UserError,
    Other,
}

#[derive(Clone, Debug)]
pub struct Fail {
    pub class: FailClass,
    pub payload: Vec<D>,
    pub note: String,
}

impl Fail {
    pub fn other(note: &str) -> Fail {
        Fail { class: FailClass::Other, payload: vec![], note: note.to_string() }
    }
    pub fn arity(note: &str) -> Fail {
        Fail { class: FailClass::WrongArity, payload: vec![], note: note.to_string() }
    }
}

/// reasons the model cannot decide a program (never a verdict)
#[derive(Clone, Debug, PartialEq)]
pub enum Undecided {
    StepBudget,
    Overflow,
    OutsideDomain(String),
}

// ---------------------------------------------------------------------------------------------
// syntax
// ---------------------------------------------------------------------------------------------

pub enum Ast {
    Const(Val),
    Var(Sym),
    Lambda(Rc<LambdaDef>),
    If(Rc<Ast>, Rc<Ast>, Option<Rc<Ast>>),
    Define(Sym, Rc<Ast>),
    Set(Sym, Rc<Ast>),
    Seq(Vec<Rc<Ast>>),
    App(Rc<Ast>, Vec<Rc<Ast>>),
    /// application of a model primitive that user code cannot rebind (used by desugaring)
    PrimApp(&'static Prim, Vec<Rc<Ast>>),
    Delay(Rc<Ast>),
}

const KEYWORDS: [&str; 23] = [
    "quote", "quasiquote", "unquote", "lambda", "define", "set!", "if", "let", "let*", "letrec", "letrec*", "begin", "cond", "case", "and", "or", "when", "unless", "delay", "else", "=>", "define-syntax",
    "delay-force",
];

pub fn is_keyword(s: &str) -> bool {
    KEYWORDS.contains(&s)
}

fn sym(s: &str) -> Sym {
    Rc::from(s)
}

struct Conv {
    gensym: usize,
}

type CResult<T> = Result<T, Fail>;

fn syn(note: &str) -> Fail {
    Fail::other(&format!("syntax: {}", note))
}

/// the form is outside the model's domain (never a verdict)
fn domain(note: &str) -> Fail {
    Fail::other(&format!("domain:{}", note))
}

fn list_items(c: &Cell) -> CResult<Vec<&Cell>> {
    let mut v = vec![];
    let mut cur = c;
    loop {
        match cur {
            Cell::Pair(a, b) => {
                v.push(a.as_ref());
                cur = b;
            }
            Cell::Nil => return Ok(v),
            _ => return Err(syn("improper list in expression")),
        }
    }
}

impl Conv {
    fn fresh(&mut self, base: &str) -> Sym {
        self.gensym += 1;
        // contains a space: no reader-produced identifier can collide
        Rc::from(format!("{} {}", base, self.gensym).as_str())
    }

    fn body(&mut self, forms: &[&Cell]) -> CResult<(Vec<Rc<Ast>>, Vec<Sym>)> {
        if forms.is_empty() {
            return Err(syn("empty body"));
        }
        let mut internal = vec![];
        let mut out = vec![];
        let mut in_defs = true;
        for f in forms {
            let is_def = matches!(f, Cell::Pair(h, _) if matches!(h.as_ref(), Cell::Symbol(s) if s == "define"));
            if is_def {
                if !in_defs {
                    return Err(syn("definition after expression in body"));
                }
                let a = self.expr(f)?;
                if let Ast::Define(name, _) = &*a {
                    internal.push(name.clone());
                }
                out.push(a);
            } else {
                in_defs = false;
                out.push(self.expr(f)?);
            }
        }
        Ok((out, internal))
    }

    fn lambda(&mut self, formals: &Cell, body: &[&Cell]) -> CResult<Rc<LambdaDef>> {
        let mut params = vec![];
        let mut rest = None;
        let mut cur = formals;
        loop {
            match cur {
                Cell::Pair(a, b) => {
                    match a.as_ref() {
                        Cell::Symbol(s) if is_keyword(s) && !is_core_keyword(s) => return Err(domain("binds a syntactic keyword")),
                        Cell::Symbol(s) if !is_core_keyword(s) => params.push(sym(s)),
                        _ => return Err(syn("bad formal parameter")),
                    }
                    cur = b;
                }
                Cell::Nil => break,
                Cell::Symbol(s) if is_keyword(s) && !is_core_keyword(s) => return Err(domain("binds a syntactic keyword")),
                Cell::Symbol(s) if !is_core_keyword(s) => {
                    rest = Some(sym(s));
                    break;
                }
                _ => return Err(syn("bad formals")),
            }
        }
        let (body, internal) = self.body(body)?;
        Ok(Rc::new(LambdaDef { params, rest, body, internal }))
    }

    fn seq(&mut self, forms: &[&Cell]) -> CResult<Rc<Ast>> {
        // `begin` in expression position: a body without its own scope for definitions is not
        // generated; marwood wraps it in a lambda. Treat as a body (lambda of no arguments).
        let (body, internal) = self.body(forms)?;
        if internal.is_empty() {
            Ok(Rc::new(Ast::Seq(body)))
        } else {
            let def = Rc::new(LambdaDef { params: vec![], rest: None, body, internal });
            Ok(Rc::new(Ast::App(Rc::new(Ast::Lambda(def)), vec![])))
        }
    }

    fn let_form(&mut self, bindings: &Cell, body: &[&Cell]) -> CResult<Rc<Ast>> {
        let mut names = Cell::Nil;
        let mut inits = vec![];
        let bs = list_items(bindings)?;
        let mut name_cells = vec![];
        for b in bs {
            let parts = list_items(b)?;
            if parts.len() != 2 {
                return Err(syn("bad let binding"));
            }
            name_cells.push(parts[0].clone());
            inits.push(self.expr(parts[1])?);
        }
        for n in name_cells.into_iter().rev() {
            names = Cell::Pair(Box::new(n), Box::new(names));
        }
        let def = self.lambda(&names, body)?;
        Ok(Rc::new(Ast::App(Rc::new(Ast::Lambda(def)), inits)))
    }

    fn expr(&mut self, c: &Cell) -> CResult<Rc<Ast>> {
        Ok(match c {
            Cell::Bool(b) => Rc::new(Ast::Const(Val::Bool(*b))),
            Cell::Char(ch) => Rc::new(Ast::Const(Val::Char(*ch))),
            Cell::Number(_) | Cell::String(_) | Cell::Vector(_) => Rc::new(Ast::Const(val_of_cell(c).map_err(|_| syn("unsupported literal"))?)),
            Cell::Nil => return Err(syn("() must be quoted")),
            Cell::Symbol(s) => {
                if is_core_keyword(s) {
                    return Err(syn("keyword used as variable"));
                }
                if is_keyword(s) {
                    return Err(domain("keyword used as variable"));
                }
                Rc::new(Ast::Var(sym(s)))
            }
            Cell::Pair(head, rest) => {
                if let Cell::Symbol(k) = head.as_ref() {
                    if is_keyword(k) {
                        return self.special(k, rest, c);
                    }
                }
                let items = list_items(rest)?;
                let f = self.expr(head)?;
                let mut args = vec![];
                for a in items {
                    args.push(self.expr(a)?);
                }
                Rc::new(Ast::App(f, args))
            }
            _ => return Err(syn("not an expression")),
        })
    }

    fn special(&mut self, k: &str, rest: &Cell, whole: &Cell) -> CResult<Rc<Ast>> {
        let items = list_items(rest)?;
        Ok(match k {
            "quote" => {
                if items.len() != 1 {
                    return Err(syn("quote"));
                }
                Rc::new(Ast::Const(val_of_cell(items[0]).map_err(|_| syn("unsupported datum"))?))
            }
            "quasiquote" => {
                if items.len() != 1 {
                    return Err(syn("quasiquote"));
                }
                self.quasi(items[0], 0)?
            }
            "unquote" => return Err(syn("unquote outside quasiquote")),
            "lambda" => {
                if items.len() < 2 {
                    return Err(syn("lambda"));
                }
                Rc::new(Ast::Lambda(self.lambda(items[0], &items[1..])?))
            }
            "define" => {
                if items.len() < 2 {
                    return Err(Fail::arity("define"));
                }
                match items[0] {
                    Cell::Symbol(s) if is_keyword(s) && !is_core_keyword(s) => return Err(domain("defines a syntactic keyword")),
                    Cell::Symbol(s) if !is_core_keyword(s) => {
                        if items.len() != 2 {
                            return Err(Fail::arity("define"));
                        }
                        let e = self.expr(items[1])?;
                        Rc::new(Ast::Define(sym(s), e))
                    }
                    Cell::Pair(name, formals) => match name.as_ref() {
                        Cell::Symbol(s) if is_keyword(s) && !is_core_keyword(s) => return Err(domain("defines a syntactic keyword")),
                        Cell::Symbol(s) if !is_core_keyword(s) => {
                            let def = self.lambda(formals, &items[1..])?;
                            Rc::new(Ast::Define(sym(s), Rc::new(Ast::Lambda(def))))
                        }
                        _ => return Err(syn("define")),
                    },
                    _ => return Err(syn("define")),
                }
            }
            "set!" => {
                if items.len() != 2 {
                    return Err(Fail::arity("set!"));
                }
                match items[0] {
                    Cell::Symbol(s) if !is_core_keyword(s) => {
                        let e = self.expr(items[1])?;
                        Rc::new(Ast::Set(sym(s), e))
                    }
                    _ => return Err(syn("set!")),
                }
            }
            "if" => {
                if items.len() < 2 || items.len() > 3 {
                    return Err(syn("if"));
                }
                let c = self.expr(items[0])?;
                let t = self.expr(items[1])?;
                let e = match items.get(2) {
                    Some(e) => Some(self.expr(e)?),
                    None => None,
                };
                Rc::new(Ast::If(c, t, e))
            }
            "begin" => {
                if items.is_empty() {
                    return Err(syn("empty begin"));
                }
                self.seq(&items)?
            }
            "let" => {
                if items.len() < 2 {
                    return Err(syn("let"));
                }
                if let Cell::Symbol(tag) = items[0] {
                    // named let: ((letrec ((tag (lambda (names…) body…))) tag) inits…)
                    if items.len() < 3 {
                        return Err(syn("named let"));
                    }
                    let bs = list_items(items[1])?;
                    let mut names = vec![];
                    let mut inits = vec![];
                    for b in bs {
                        let parts = list_items(b)?;
                        if parts.len() != 2 {
                            return Err(syn("bad let binding"));
                        }
                        names.push(parts[0].clone());
                        inits.push(self.expr(parts[1])?);
                    }
                    let formals = Cell::new_list(names);
                    let def = self.lambda(&formals, &items[2..])?;
                    let tag = sym(tag);
                    // (letrec ((tag lambda)) tag)
                    let inner = LambdaDef {
                        params: vec![tag.clone()],
                        rest: None,
                        body: vec![Rc::new(Ast::Set(tag.clone(), Rc::new(Ast::Lambda(def)))), Rc::new(Ast::Var(tag.clone()))],
                        internal: vec![],
                    };
                    let proc_expr = Rc::new(Ast::App(Rc::new(Ast::Lambda(Rc::new(inner))), vec![Rc::new(Ast::Const(Val::Unassigned))]));
                    Rc::new(Ast::App(proc_expr, inits))
                } else {
                    self.let_form(items[0], &items[1..])?
                }
            }
            "let*" => {
                if items.len() < 2 {
                    return Err(syn("let*"));
                }
                let bs = list_items(items[0])?;
                if bs.len() <= 1 {
                    self.let_form(items[0], &items[1..])?
                } else {
                    // nest
                    let first = Cell::new_list(vec![bs[0].clone()]);
                    let rest_b = Cell::new_list(bs[1..].iter().map(|b| (*b).clone()).collect::<Vec<_>>());
                    let mut inner = vec![Cell::Symbol("let*".into()), rest_b];
                    inner.extend(items[1..].iter().map(|b| (*b).clone()));
                    let inner = Cell::new_list(inner);
                    self.let_form(&first, &[&inner])?
                }
            }
            "letrec" | "letrec*" => {
                if items.len() < 2 {
                    return Err(syn("letrec"));
                }
                let bs = list_items(items[0])?;
                let mut params = vec![];
                let mut sets = vec![];
                for b in bs {
                    let parts = list_items(b)?;
                    if parts.len() != 2 {
                        return Err(syn("bad letrec binding"));
                    }
                    let name = match parts[0] {
                        Cell::Symbol(s) if !is_core_keyword(s) => sym(s),
                        _ => return Err(syn("bad letrec name")),
                    };
                    params.push(name.clone());
                    sets.push((name, parts[1]));
                }
                let mut body = vec![];
                let mut conv_sets = vec![];
                for (n, e) in sets {
                    conv_sets.push(Rc::new(Ast::Set(n, self.expr(e)?)));
                }
                body.extend(conv_sets);
                // body in its own scope (internal definitions allowed)
                let (b, internal) = self.body(&items[1..])?;
                let inner = Rc::new(LambdaDef { params: vec![], rest: None, body: b, internal });
                body.push(Rc::new(Ast::App(Rc::new(Ast::Lambda(inner)), vec![])));
                let n = params.len();
                let def = Rc::new(LambdaDef { params, rest: None, body, internal: vec![] });
                Rc::new(Ast::App(Rc::new(Ast::Lambda(def)), (0..n).map(|_| Rc::new(Ast::Const(Val::Unassigned))).collect()))
            }
            "and" => {
                if items.is_empty() {
                    Rc::new(Ast::Const(Val::Bool(true)))
                } else {
                    let mut acc = self.expr(items[items.len() - 1])?;
                    for e in items[..items.len() - 1].iter().rev() {
                        acc = Rc::new(Ast::If(self.expr(e)?, acc, Some(Rc::new(Ast::Const(Val::Bool(false))))));
                    }
                    acc
                }
            }
            "or" => {
                if items.is_empty() {
                    Rc::new(Ast::Const(Val::Bool(false)))
                } else {
                    let mut acc = self.expr(items[items.len() - 1])?;
                    for e in items[..items.len() - 1].iter().rev() {
                        let t = self.fresh("or");
                        let test = self.expr(e)?;
                        let def = LambdaDef { params: vec![t.clone()], rest: None, body: vec![Rc::new(Ast::If(Rc::new(Ast::Var(t.clone())), Rc::new(Ast::Var(t.clone())), Some(acc)))], internal: vec![] };
                        acc = Rc::new(Ast::App(Rc::new(Ast::Lambda(Rc::new(def))), vec![test]));
                    }
                    acc
                }
            }
            "when" | "unless" => {
                if items.len() < 2 {
                    return Err(syn("when/unless"));
                }
                let test = self.expr(items[0])?;
                let body = self.seq(&items[1..])?;
                if k == "when" {
                    Rc::new(Ast::If(test, body, None))
                } else {
                    Rc::new(Ast::If(test, Rc::new(Ast::Const(Val::Unspec)), Some(body)))
                }
            }
            "cond" => {
                if items.is_empty() {
                    return Err(syn("cond"));
                }
                let mut acc: Option<Rc<Ast>> = None;
                for (i, cl) in items.iter().enumerate().rev() {
                    let parts = list_items(cl)?;
                    if parts.is_empty() {
                        return Err(syn("empty cond clause"));
                    }
                    let is_else = matches!(parts[0], Cell::Symbol(s) if s == "else");
                    if is_else {
                        if i != items.len() - 1 || parts.len() < 2 {
                            return Err(syn("misplaced else"));
                        }
                        acc = Some(self.seq(&parts[1..])?);
                        continue;
                    }
                    let test = self.expr(parts[0])?;
                    let is_arrow = parts.len() == 3 && matches!(parts[1], Cell::Symbol(s) if s == "=>");
                    let node = if parts.len() == 1 {
                        let t = self.fresh("cond");
                        let def = LambdaDef { params: vec![t.clone()], rest: None, body: vec![Rc::new(Ast::If(Rc::new(Ast::Var(t.clone())), Rc::new(Ast::Var(t.clone())), acc.clone()))], internal: vec![] };
                        Rc::new(Ast::App(Rc::new(Ast::Lambda(Rc::new(def))), vec![test]))
                    } else if is_arrow {
                        let t = self.fresh("cond");
                        let recv = self.expr(parts[2])?;
                        let call = Rc::new(Ast::App(recv, vec![Rc::new(Ast::Var(t.clone()))]));
                        let def = LambdaDef { params: vec![t.clone()], rest: None, body: vec![Rc::new(Ast::If(Rc::new(Ast::Var(t.clone())), call, acc.clone()))], internal: vec![] };
                        Rc::new(Ast::App(Rc::new(Ast::Lambda(Rc::new(def))), vec![test]))
                    } else {
                        let body = self.seq(&parts[1..])?;
                        Rc::new(Ast::If(test, body, acc.clone()))
                    };
                    acc = Some(node);
                }
                acc.unwrap()
            }
            "case" => {
                if items.len() < 2 {
                    return Err(syn("case"));
                }
                let key = self.expr(items[0])?;
                let t = self.fresh("case");
                let mut acc: Option<Rc<Ast>> = None;
                for (i, cl) in items[1..].iter().enumerate().rev() {
                    let parts = list_items(cl)?;
                    if parts.len() < 2 {
                        return Err(syn("case clause"));
                    }
                    let is_arrow = parts.len() == 3 && matches!(parts[1], Cell::Symbol(s) if s == "=>");
                    let result = if is_arrow {
                        let recv = self.expr(parts[2])?;
                        Rc::new(Ast::App(recv, vec![Rc::new(Ast::Var(t.clone()))]))
                    } else {
                        self.seq(&parts[1..])?
                    };
                    let is_else = matches!(parts[0], Cell::Symbol(s) if s == "else");
                    if is_else {
                        if i != items.len() - 2 {
                            return Err(syn("misplaced else"));
                        }
                        acc = Some(result);
                        continue;
                    }
                    let data = val_of_cell(parts[0]).map_err(|_| syn("case data"))?;
                    let test = Rc::new(Ast::PrimApp(prim("memv"), vec![Rc::new(Ast::Var(t.clone())), Rc::new(Ast::Const(data))]));
                    acc = Some(Rc::new(Ast::If(test, result, acc.clone())));
                }
                let body = acc.ok_or_else(|| syn("case"))?;
                let def = LambdaDef { params: vec![t], rest: None, body: vec![body], internal: vec![] };
                Rc::new(Ast::App(Rc::new(Ast::Lambda(Rc::new(def))), vec![key]))
            }
            "delay" => {
                if items.len() != 1 {
                    return Err(syn("delay"));
                }
                Rc::new(Ast::Delay(self.expr(items[0])?))
            }
            _ => {
                let _ = whole;
                return Err(syn("unsupported special form"));
            }
        })
    }

    /// quasiquote template at nesting `depth` -> expression building the datum
    fn quasi(&mut self, t: &Cell, depth: usize) -> CResult<Rc<Ast>> {
        match t {
            Cell::Pair(head, rest) => {
                if let Cell::Symbol(s) = head.as_ref() {
                    if s == "unquote" {
                        let items = list_items(rest)?;
                        if items.len() == 1 {
                            if depth == 0 {
                                return self.expr(items[0]);
                            }
                            let inner = self.quasi(items[0], depth - 1)?;
                            return Ok(Rc::new(Ast::PrimApp(prim("list"), vec![Rc::new(Ast::Const(Val::Sym(sym("unquote")))), inner])));
                        }
                    }
                    if s == "quasiquote" {
                        let items = list_items(rest)?;
                        if items.len() == 1 {
                            let inner = self.quasi(items[0], depth + 1)?;
                            return Ok(Rc::new(Ast::PrimApp(prim("list"), vec![Rc::new(Ast::Const(Val::Sym(sym("quasiquote")))), inner])));
                        }
                    }
                }
                let a = self.quasi(head, depth)?;
                let b = self.quasi(rest, depth)?;
                Ok(Rc::new(Ast::PrimApp(prim("cons"), vec![a, b])))
            }
            Cell::Vector(items) => {
                let mut parts = vec![];
                for it in items {
                    parts.push(self.quasi(it, depth)?);
                }
                Ok(Rc::new(Ast::PrimApp(prim("vector"), parts)))
            }
            other => Ok(Rc::new(Ast::Const(val_of_cell(other).map_err(|_| syn("unsupported datum"))?))),
        }
    }
}

fn is_core_keyword(s: &str) -> bool {
    matches!(s, "define" | "lambda" | "if" | "quasiquote" | "quote" | "set!" | "unquote")
}

pub fn val_of_cell(c: &Cell) -> Result<Val, ()> {
    Ok(match c {
        Cell::Bool(b) => Val::Bool(*b),
        Cell::Char(c) => Val::Char(*c),
        Cell::Nil => Val::Nil,
        Cell::Number(Number::Fixnum(i)) => Val::Int(*i),
        Cell::Number(_) => return Err(()),
        Cell::String(s) => Val::Str(Rc::new(RefCell::new(s.clone()))),
        Cell::Symbol(s) => Val::Sym(sym(s)),
        Cell::Pair(_, _) => {
            let mut items = vec![];
            let mut cur = c;
            while let Cell::Pair(a, b) = cur {
                items.push(val_of_cell(a)?);
                cur = b;
            }
            let mut tail = val_of_cell(cur)?;
            for it in items.into_iter().rev() {
                tail = cons(it, tail);
            }
            tail
        }
        Cell::Vector(v) => {
            let mut out = vec![];
            for it in v {
                out.push(val_of_cell(it)?);
            }
            Val::Vector(Rc::new(RefCell::new(out)))
        }
        _ => return Err(()),
    })
}

/// datum (for eval): value -> Cell
pub fn cell_of_val(v: &Val) -> Result<Cell, ()> {
    Ok(match v {
        Val::Int(i) => Cell::Number(Number::Fixnum(*i)),
        Val::Bool(b) => Cell::Bool(*b),
        Val::Char(c) => Cell::Char(*c),
        Val::Str(s) => Cell::String(s.borrow().clone()),
        Val::Sym(s) => Cell::Symbol(s.to_string()),
        Val::Nil => Cell::Nil,
        Val::Pair(_) => {
            let mut items = vec![];
            let mut cur = v.clone();
            let mut n = 0;
            loop {
                let next = match &cur {
                    Val::Pair(p) => {
                        items.push(cell_of_val(&p.0.borrow())?);
                        p.1.borrow().clone()
                    }
                    _ => break,
                };
                cur = next;
                n += 1;
                if n > 100_000 {
                    return Err(());
                }
            }
            let tail = cell_of_val(&cur)?;
            if tail.is_nil() {
                Cell::new_list(items)
            } else {
                Cell::new_improper_list(items, tail)
            }
        }
        Val::Vector(vs) => {
            let mut out = vec![];
            for it in vs.borrow().iter() {
                out.push(cell_of_val(it)?);
            }
            Cell::Vector(out)
        }
        _ => return Err(()),
    })
}

pub fn cons(a: Val, b: Val) -> Val {
    Val::Pair(Rc::new((RefCell::new(a), RefCell::new(b))))
}

pub fn list_of(items: Vec<Val>) -> Val {
    let mut tail = Val::Nil;
    for it in items.into_iter().rev() {
        tail = cons(it, tail);
    }
    tail
}

// ---------------------------------------------------------------------------------------------
// environments
// ---------------------------------------------------------------------------------------------

pub struct Frame {
    vars: RefCell<Vec<(Sym, Rc<RefCell<Val>>)>>,
    parent: Option<Env>,
}
pub type Env = Rc<Frame>;

fn lookup(env: &Option<Env>, name: &str) -> Option<Rc<RefCell<Val>>> {
    let mut cur = env.clone();
    while let Some(f) = cur {
        // innermost binding of a duplicated name wins: search from the end
        if let Some((_, loc)) = f.vars.borrow().iter().rev().find(|(n, _)| &**n == name) {
            return Some(loc.clone());
        }
        cur = f.parent.clone();
    }
    None
}

// ---------------------------------------------------------------------------------------------
// continuations
// ---------------------------------------------------------------------------------------------

pub enum K {
    Halt,
    If { t: Rc<Ast>, e: Option<Rc<Ast>>, env: Option<Env>, next: Rc<K> },
    Seq { body: Rc<Vec<Rc<Ast>>>, idx: usize, env: Option<Env>, next: Rc<K> },
    /// evaluating operand `idx`; `done` holds the values of operands 0..idx
    Args { f: Option<Rc<Ast>>, prim: Option<&'static Prim>, args: Rc<Vec<Rc<Ast>>>, idx: usize, done: Rc<Vec<Val>>, env: Option<Env>, next: Rc<K> },
    /// operands done, operator being evaluated
    Op { done: Rc<Vec<Val>>, next: Rc<K> },
    Define { name: Sym, env: Option<Env>, next: Rc<K> },
    Set { name: Sym, env: Option<Env>, next: Rc<K> },
    ForceDone { promise: Rc<RefCell<PromiseState>>, next: Rc<K> },
}

enum Ctl {
    Eval(Rc<Ast>, Option<Env>),
    Ret(Val),
    Apply(Val, Vec<Val>),
}

#[derive(Clone, Debug, PartialEq)]
pub enum Mode {
    Display,
    Write,
}

#[derive(Clone, Debug)]
pub enum Outcome {
    Value(D),
    Failure(FailClass, Vec<D>, String),
}

pub struct FormResult {
    pub outcome: Outcome,
    pub output: Vec<(Mode, D)>,
    pub steps: u64,
}

pub struct Machine {
    globals: HashMap<String, Rc<RefCell<Val>>>,
    out: Vec<(Mode, D)>,
    steps: u64,
    pub budget: u64,
    conv: Conv,
}

const MODEL_PRELUDE: &str = r#"
(define (map f . ls)
  (define (map1 g l) (if (null? l) '() (cons (g (car l)) (map1 g (cdr l)))))
  (define (any-null? l) (if (null? l) #f (if (null? (car l)) #t (any-null? (cdr l)))))
  (define (go ls) (if (any-null? ls) '() (let ((x (apply f (map1 car ls)))) (cons x (go (map1 cdr ls))))))
  (go ls))
(define (for-each f . ls)
  (define (map1 g l) (if (null? l) '() (cons (g (car l)) (map1 g (cdr l)))))
  (define (any-null? l) (if (null? l) #f (if (null? (car l)) #t (any-null? (cdr l)))))
  (define (go ls) (if (any-null? ls) (if #f #f) (begin (apply f (map1 car ls)) (go (map1 cdr ls)))))
  (go ls))
"#;

impl Machine {
    pub fn new() -> Machine {
        let mut m = Machine { globals: HashMap::new(), out: vec![], steps: 0, budget: 200_000, conv: Conv { gensym: 0 } };
        for p in PRIMS.iter() {
            m.globals.insert(p.name.to_string(), Rc::new(RefCell::new(Val::Prim(p))));
        }
        let alias = m.globals.get("call/cc").unwrap().clone();
        m.globals.insert("call-with-current-continuation".into(), alias);
        let mut rest: &str = MODEL_PRELUDE;
        loop {
            let (c, r) = marwood::parse::parse_text(rest).expect("model prelude parses");
            m.budget = 1_000_000;
            let r0 = m.eval_form(&c);
            assert!(matches!(r0, Ok(FormResult { outcome: Outcome::Value(_), .. })), "model prelude evaluates");
            match r {
                Some(r) => rest = r,
                None => break,
            }
        }
        m.budget = 200_000;
        m
    }

    pub fn global_is_defined(&self, name: &str) -> bool {
        self.globals.contains_key(name)
    }

    /// Evaluate one top-level form.
    pub fn eval_form(&mut self, form: &Cell) -> Result<FormResult, Undecided> {
        self.out.clear();
        self.steps = 0;
        // a top-level (begin …) splices its forms into the top level (R7RS 5.1)
        let converted = match form {
            Cell::Pair(h, rest) if matches!(h.as_ref(), Cell::Symbol(s) if s == "begin") && !rest.is_nil() => match list_items(rest) {
                Ok(items) => {
                    let mut out = vec![];
                    let mut err = None;
                    for it in items {
                        match self.conv.expr(it) {
                            Ok(a) => out.push(a),
                            Err(f) => {
                                err = Some(f);
                                break;
                            }
                        }
                    }
                    match err {
                        Some(f) => Err(f),
                        None => Ok(Rc::new(Ast::Seq(out))),
                    }
                }
                Err(f) => Err(f),
            },
            _ => self.conv.expr(form),
        };
        let ast = match converted {
            Ok(a) => a,
            Err(f) if f.note.starts_with("domain:") => return Err(Undecided::OutsideDomain(f.note)),
            Err(f) => {
                return Ok(FormResult { outcome: Outcome::Failure(f.class, f.payload, f.note), output: vec![], steps: 0 });
            }
        };
        let r = self.run(Ctl::Eval(ast, None), Rc::new(K::Halt));
        let output = std::mem::take(&mut self.out);
        match r {
            Ok(v) => Ok(FormResult { outcome: Outcome::Value(d_of_val(&v)), output, steps: self.steps }),
            Err(Stop::Fail(f)) => Ok(FormResult { outcome: Outcome::Failure(f.class, f.payload, f.note), output, steps: self.steps }),
            Err(Stop::Undecided(u)) => Err(u),
        }
    }

    fn run(&mut self, mut ctl: Ctl, mut k: Rc<K>) -> Result<Val, Stop> {
        loop {
            self.steps += 1;
            if self.steps > self.budget {
                return Err(Stop::Undecided(Undecided::StepBudget));
            }
            ctl = match ctl {
                Ctl::Eval(ast, env) => match &*ast {
                    Ast::Const(v) => Ctl::Ret(v.clone()),
                    Ast::Var(name) => {
                        let loc = lookup(&env, name).or_else(|| self.globals.get(&**name).cloned());
                        match loc {
                            Some(l) => {
                                let v = l.borrow().clone();
                                if let Val::Unassigned = v {
                                    return Err(Stop::Undecided(Undecided::OutsideDomain(format!("read of uninitialised {}", name))));
                                }
                                Ctl::Ret(v)
                            }
                            None => return Err(Stop::Fail(Fail { class: FailClass::Unbound, payload: vec![], note: name.to_string() })),
                        }
                    }
                    Ast::Lambda(def) => Ctl::Ret(Val::Clo(Rc::new(Closure { def: def.clone(), env: env.clone().unwrap_or_else(|| Rc::new(Frame { vars: RefCell::new(vec![]), parent: None })) }))),
                    Ast::If(c, t, e) => {
                        k = Rc::new(K::If { t: t.clone(), e: e.clone(), env: env.clone(), next: k });
                        Ctl::Eval(c.clone(), env)
                    }
                    Ast::Define(name, e) => {
                        k = Rc::new(K::Define { name: name.clone(), env: env.clone(), next: k });
                        Ctl::Eval(e.clone(), env)
                    }
                    Ast::Set(name, e) => {
                        k = Rc::new(K::Set { name: name.clone(), env: env.clone(), next: k });
                        Ctl::Eval(e.clone(), env)
                    }
                    Ast::Seq(body) => {
                        let body = Rc::new(body.clone());
                        if body.len() > 1 {
                            k = Rc::new(K::Seq { body: body.clone(), idx: 1, env: env.clone(), next: k });
                        }
                        Ctl::Eval(body[0].clone(), env)
                    }
                    Ast::App(f, args) => {
                        if args.is_empty() {
                            k = Rc::new(K::Op { done: Rc::new(vec![]), next: k });
                            Ctl::Eval(f.clone(), env)
                        } else {
                            let args = Rc::new(args.clone());
                            k = Rc::new(K::Args { f: Some(f.clone()), prim: None, args: args.clone(), idx: 0, done: Rc::new(vec![]), env: env.clone(), next: k });
                            Ctl::Eval(args[0].clone(), env)
                        }
                    }
                    Ast::PrimApp(p, args) => {
                        if args.is_empty() {
                            Ctl::Apply(Val::Prim(p), vec![])
                        } else {
                            let args = Rc::new(args.clone());
                            k = Rc::new(K::Args { f: None, prim: Some(p), args: args.clone(), idx: 0, done: Rc::new(vec![]), env: env.clone(), next: k });
                            Ctl::Eval(args[0].clone(), env)
                        }
                    }
                    Ast::Delay(e) => {
                        let env2 = env.clone().unwrap_or_else(|| Rc::new(Frame { vars: RefCell::new(vec![]), parent: None }));
                        Ctl::Ret(Val::Promise(Rc::new(RefCell::new(PromiseState::Delayed(e.clone(), env2)))))
                    }
                },
                Ctl::Ret(v) => {
                    let frame = k.clone();
                    match &*frame {
                        K::Halt => return Ok(v),
                        K::If { t, e, env, next } => {
                            k = next.clone();
                            if !matches!(v, Val::Bool(false)) {
                                Ctl::Eval(t.clone(), env.clone())
                            } else {
                                match e {
                                    Some(e) => Ctl::Eval(e.clone(), env.clone()),
                                    None => Ctl::Ret(Val::Unspec),
                                }
                            }
                        }
                        K::Seq { body, idx, env, next } => {
                            if idx + 1 < body.len() {
                                k = Rc::new(K::Seq { body: body.clone(), idx: idx + 1, env: env.clone(), next: next.clone() });
                            } else {
                                k = next.clone();
                            }
                            Ctl::Eval(body[*idx].clone(), env.clone())
                        }
                        K::Args { f, prim, args, idx, done, env, next } => {
                            let mut d = (**done).clone();
                            d.push(v);
                            if idx + 1 < args.len() {
                                k = Rc::new(K::Args { f: f.clone(), prim: *prim, args: args.clone(), idx: idx + 1, done: Rc::new(d), env: env.clone(), next: next.clone() });
                                Ctl::Eval(args[idx + 1].clone(), env.clone())
                            } else {
                                match (f, prim) {
                                    (Some(f), _) => {
                                        k = Rc::new(K::Op { done: Rc::new(d), next: next.clone() });
                                        Ctl::Eval(f.clone(), env.clone())
                                    }
                                    (None, Some(p)) => {
                                        k = next.clone();
                                        Ctl::Apply(Val::Prim(p), d)
                                    }
                                    _ => unreachable!(),
                                }
                            }
                        }
                        K::Op { done, next } => {
                            k = next.clone();
                            Ctl::Apply(v, (**done).clone())
                        }
                        K::Define { name, env, next } => {
                            k = next.clone();
                            match env {
                                None => {
                                    match self.globals.get(&**name) {
                                        Some(l) => *l.borrow_mut() = v,
                                        None => {
                                            self.globals.insert(name.to_string(), Rc::new(RefCell::new(v)));
                                        }
                                    };
                                }
                                Some(f) => {
                                    let existing = f.vars.borrow().iter().rev().find(|(n, _)| n == name).map(|(_, l)| l.clone());
                                    match existing {
                                        Some(l) => *l.borrow_mut() = v,
                                        None => f.vars.borrow_mut().push((name.clone(), Rc::new(RefCell::new(v)))),
                                    }
                                }
                            }
                            Ctl::Ret(Val::Unspec)
                        }
                        K::Set { name, env, next } => {
                            k = next.clone();
                            let loc = lookup(env, name).or_else(|| self.globals.get(&**name).cloned());
                            match loc {
                                Some(l) => *l.borrow_mut() = v,
                                None => return Err(Stop::Undecided(Undecided::OutsideDomain(format!("set! of undefined {}", name)))),
                            }
                            Ctl::Ret(Val::Unspec)
                        }
                        K::ForceDone { promise, next } => {
                            k = next.clone();
                            let already = matches!(&*promise.borrow(), PromiseState::Forced(_));
                            if already {
                                // R7RS: a promise forced re-entrantly keeps its first value
                                let first = match &*promise.borrow() {
                                    PromiseState::Forced(x) => x.clone(),
                                    _ => unreachable!(),
                                };
                                Ctl::Ret(first)
                            } else {
                                *promise.borrow_mut() = PromiseState::Forced(v.clone());
                                Ctl::Ret(v)
                            }
                        }
                    }
                }
                Ctl::Apply(f, args) => match &f {
                    Val::Clo(c) => {
                        let def = &c.def;
                        if args.len() < def.params.len() || (def.rest.is_none() && args.len() > def.params.len()) {
                            return Err(Stop::Fail(Fail::arity("closure")));
                        }
                        let mut vars: Vec<(Sym, Rc<RefCell<Val>>)> = vec![];
                        for (p, a) in def.params.iter().zip(args.iter()) {
                            vars.push((p.clone(), Rc::new(RefCell::new(a.clone()))));
                        }
                        if let Some(r) = &def.rest {
                            vars.push((r.clone(), Rc::new(RefCell::new(list_of(args[def.params.len()..].to_vec())))));
                        }
                        for n in &def.internal {
                            vars.push((n.clone(), Rc::new(RefCell::new(Val::Unassigned))));
                        }
                        let env = Rc::new(Frame { vars: RefCell::new(vars), parent: Some(c.env.clone()) });
                        let body = Rc::new(def.body.clone());
                        if body.len() > 1 {
                            k = Rc::new(K::Seq { body: body.clone(), idx: 1, env: Some(env.clone()), next: k });
                        }
                        Ctl::Eval(body[0].clone(), Some(env))
                    }
                    Val::Cont(k2) => {
                        if args.len() != 1 {
                            return Err(Stop::Undecided(Undecided::OutsideDomain("continuation applied to other than one value".into())));
                        }
                        k = k2.clone();
                        Ctl::Ret(args[0].clone())
                    }
                    Val::Prim(p) => {
                        if args.len() < p.min || p.max.map(|m| args.len() > m).unwrap_or(false) {
                            return Err(Stop::Fail(Fail::arity(p.name)));
                        }
                        match &p.f {
                            PrimFn::Pure(f) => match f(&args) {
                                Ok(v) => Ctl::Ret(v),
                                Err(fl) => {
                                    if fl.note == "overflow" {
                                        return Err(Stop::Undecided(Undecided::Overflow));
                                    }
                                    if fl.note.starts_with("domain:") {
                                        return Err(Stop::Undecided(Undecided::OutsideDomain(fl.note.clone())));
                                    }
                                    return Err(Stop::Fail(fl));
                                }
                            },
                            PrimFn::Special(s) => match s {
                                Special::Apply => {
                                    let f = args[0].clone();
                                    let mut all: Vec<Val> = args[1..args.len() - 1].to_vec();
                                    let mut cur = args[args.len() - 1].clone();
                                    loop {
                                        let next = match &cur {
                                            Val::Pair(p) => {
                                                all.push(p.0.borrow().clone());
                                                p.1.borrow().clone()
                                            }
                                            Val::Nil => break,
                                            _ => return Err(Stop::Fail(Fail::other("apply: last argument is not a proper list"))),
                                        };
                                        cur = next;
                                    }
                                    Ctl::Apply(f, all)
                                }
                                Special::CallCC => {
                                    let recv = args[0].clone();
                                    if !matches!(recv, Val::Clo(_) | Val::Prim(_) | Val::Cont(_)) {
                                        return Err(Stop::Fail(Fail::other("call/cc: not a procedure")));
                                    }
                                    Ctl::Apply(recv, vec![Val::Cont(k.clone())])
                                }
                                Special::Eval => {
                                    let datum = cell_of_val(&args[0]).map_err(|_| Stop::Undecided(Undecided::OutsideDomain("eval of non-datum".into())))?;
                                    match self.conv.expr(&datum) {
                                        Ok(a) => Ctl::Eval(a, None),
                                        Err(f) if f.note.starts_with("domain:") => return Err(Stop::Undecided(Undecided::OutsideDomain(f.note))),
                                        Err(f) => return Err(Stop::Fail(f)),
                                    }
                                }
                                Special::Error => {
                                    let payload = args.iter().map(d_of_val).collect();
                                    return Err(Stop::Fail(Fail { class: FailClass::UserError, payload, note: "error".into() }));
                                }
                                Special::Display => {
                                    self.out.push((Mode::Display, d_of_val(&args[0])));
                                    Ctl::Ret(Val::Unspec)
                                }
                                Special::Write => {
                                    self.out.push((Mode::Write, d_of_val(&args[0])));
                                    Ctl::Ret(Val::Unspec)
                                }
                                Special::Force => match &args[0] {
                                    Val::Promise(p) => {
                                        let st = match &*p.borrow() {
                                            PromiseState::Forced(v) => Ok(v.clone()),
                                            PromiseState::Delayed(e, env) => Err((e.clone(), env.clone())),
                                        };
                                        match st {
                                            Ok(v) => Ctl::Ret(v),
                                            Err((e, env)) => {
                                                k = Rc::new(K::ForceDone { promise: p.clone(), next: k });
                                                Ctl::Eval(e, Some(env))
                                            }
                                        }
                                    }
                                    _ => return Err(Stop::Undecided(Undecided::OutsideDomain("force of a non-promise".into()))),
                                },
                            },
                        }
                    }
                    _ => return Err(Stop::Fail(Fail { class: FailClass::NotAProcedure, payload: vec![d_of_val(&f)], note: "call of non-procedure".into() })),
                },
            };
        }
    }
}

impl Default for Machine {
    fn default() -> Self {
        Machine::new()
    }
}

enum Stop {
    Fail(Fail),
    Undecided(Undecided),
}

// ---------------------------------------------------------------------------------------------
// primitives
// ---------------------------------------------------------------------------------------------

fn prim(name: &str) -> &'static Prim {
    PRIMS.iter().find(|p| p.name == name).expect("model primitive")
}

fn ty(note: &str) -> Fail {
    Fail::other(note)
}

fn int(v: &Val) -> Result<i64, Fail> {
    match v {
        Val::Int(i) => Ok(*i),
        _ => Err(ty("not a number")),
    }
}

fn ck(o: Option<i64>) -> Result<Val, Fail> {
    o.map(Val::Int).ok_or_else(|| Fail::other("overflow"))
}

fn car(v: &Val) -> Result<Val, Fail> {
    match v {
        Val::Pair(p) => Ok(p.0.borrow().clone()),
        _ => Err(ty("not a pair")),
    }
}
fn cdr(v: &Val) -> Result<Val, Fail> {
    match v {
        Val::Pair(p) => Ok(p.1.borrow().clone()),
        _ => Err(ty("not a pair")),
    }
}

fn list_to_vec(v: &Val) -> Result<Vec<Val>, Fail> {
    let mut out = vec![];
    let mut cur = v.clone();
    loop {
        let next = match &cur {
            Val::Pair(p) => {
                out.push(p.0.borrow().clone());
                p.1.borrow().clone()
            }
            Val::Nil => return Ok(out),
            _ => return Err(ty("not a proper list")),
        };
        cur = next;
        if out.len() > 1_000_000 {
            return Err(Fail::other("domain:list too long or circular"));
        }
    }
}

pub fn eqv(a: &Val, b: &Val) -> bool {
    match (a, b) {
        (Val::Int(x), Val::Int(y)) => x == y,
        (Val::Bool(x), Val::Bool(y)) => x == y,
        (Val::Char(x), Val::Char(y)) => x == y,
        (Val::Sym(x), Val::Sym(y)) => x == y,
        (Val::Nil, Val::Nil) => true,
        (Val::Str(x), Val::Str(y)) => Rc::ptr_eq(x, y),
        (Val::Pair(x), Val::Pair(y)) => Rc::ptr_eq(x, y),
        (Val::Vector(x), Val::Vector(y)) => Rc::ptr_eq(x, y),
        (Val::Clo(x), Val::Clo(y)) => Rc::ptr_eq(x, y),
        (Val::Prim(x), Val::Prim(y)) => std::ptr::eq(*x, *y),
        (Val::Cont(x), Val::Cont(y)) => Rc::ptr_eq(x, y),
        _ => false,
    }
}

pub fn equal(a: &Val, b: &Val) -> bool {
    let mut a = a.clone();
    let mut b = b.clone();
    loop {
        let (na, nb) = match (&a, &b) {
            (Val::Pair(x), Val::Pair(y)) => {
                if Rc::ptr_eq(x, y) {
                    return true;
                }
                if !equal(&x.0.borrow(), &y.0.borrow()) {
                    return false;
                }
                (x.1.borrow().clone(), y.1.borrow().clone())
            }
            (Val::Vector(x), Val::Vector(y)) => {
                let x = x.borrow();
                let y = y.borrow();
                return x.len() == y.len() && x.iter().zip(y.iter()).all(|(p, q)| equal(p, q));
            }
            (Val::Str(x), Val::Str(y)) => return *x.borrow() == *y.borrow(),
            _ => return eqv(&a, &b),
        };
        a = na;
        b = nb;
    }
}

fn mem(args: &[Val], cmp: fn(&Val, &Val) -> bool) -> Result<Val, Fail> {
    let mut cur = args[1].clone();
    loop {
        let next = match &cur {
            Val::Pair(p) => {
                if cmp(&p.0.borrow(), &args[0]) {
                    return Ok(cur.clone());
                }
                p.1.borrow().clone()
            }
            Val::Nil => return Ok(Val::Bool(false)),
            _ => return Err(ty("not a list")),
        };
        cur = next;
    }
}

fn ass(args: &[Val], cmp: fn(&Val, &Val) -> bool) -> Result<Val, Fail> {
    let mut cur = args[1].clone();
    loop {
        let next = match &cur {
            Val::Pair(p) => {
                let entry = p.0.borrow().clone();
                if let Val::Pair(e) = &entry {
                    if cmp(&e.0.borrow(), &args[0]) {
                        return Ok(entry.clone());
                    }
                } else {
                    return Err(Fail::other("domain:alist entry is not a pair"));
                }
                p.1.borrow().clone()
            }
            Val::Nil => return Ok(Val::Bool(false)),
            _ => return Err(ty("not a list")),
        };
        cur = next;
    }
}

fn num_cmp(args: &[Val], f: fn(i64, i64) -> bool) -> Result<Val, Fail> {
    let mut ok = true;
    for w in args.windows(2) {
        let a = match &w[0] {
            Val::Int(i) => *i,
            _ => return Err(Fail::other("domain:comparison of a non-number")),
        };
        let b = match &w[1] {
            Val::Int(i) => *i,
            _ => return Err(Fail::other("domain:comparison of a non-number")),
        };
        if !f(a, b) {
            ok = false;
        }
    }
    if args.len() == 1 && !matches!(args[0], Val::Int(_)) {
        return Err(Fail::other("domain:comparison of a non-number"));
    }
    Ok(Val::Bool(ok))
}

fn index(v: &Val) -> Result<usize, Fail> {
    match v {
        Val::Int(i) if *i >= 0 => Ok(*i as usize),
        _ => Err(ty("bad index")),
    }
}

macro_rules! pure {
    ($name:expr, $min:expr, $max:expr, $f:expr) => {
        Prim { name: $name, min: $min, max: $max, f: PrimFn::Pure($f) }
    };
}

pub static PRIMS: &[Prim] = &[
    pure!("car", 1, Some(1), |a| car(&a[0])),
    pure!("cdr", 1, Some(1), |a| cdr(&a[0])),
    pure!("caar", 1, Some(1), |a| car(&car(&a[0])?)),
    pure!("cadr", 1, Some(1), |a| car(&cdr(&a[0])?)),
    pure!("cdar", 1, Some(1), |a| cdr(&car(&a[0])?)),
    pure!("cddr", 1, Some(1), |a| cdr(&cdr(&a[0])?)),
    pure!("cons", 2, Some(2), |a| Ok(cons(a[0].clone(), a[1].clone()))),
    pure!("set-car!", 2, Some(2), |a| match &a[0] {
        Val::Pair(p) => {
            *p.0.borrow_mut() = a[1].clone();
            Ok(Val::Unspec)
        }
        _ => Err(ty("set-car!")),
    }),
    pure!("set-cdr!", 2, Some(2), |a| match &a[0] {
        Val::Pair(p) => {
            *p.1.borrow_mut() = a[1].clone();
            Ok(Val::Unspec)
        }
        _ => Err(ty("set-cdr!")),
    }),
    pure!("list", 0, None, |a| Ok(list_of(a.to_vec()))),
    pure!("length", 1, Some(1), |a| Ok(Val::Int(list_to_vec(&a[0])?.len() as i64))),
    pure!("append", 0, None, |a| {
        if a.is_empty() {
            return Ok(Val::Nil);
        }
        let mut tail = a[a.len() - 1].clone();
        for l in a[..a.len() - 1].iter().rev() {
            let items = list_to_vec(l)?;
            for it in items.into_iter().rev() {
                tail = cons(it, tail);
            }
        }
        Ok(tail)
    }),
    pure!("reverse", 1, Some(1), |a| {
        let mut items = list_to_vec(&a[0])?;
        items.reverse();
        Ok(list_of(items))
    }),
    pure!("list-tail", 2, Some(2), |a| {
        let mut cur = a[0].clone();
        if !matches!(cur, Val::Pair(_) | Val::Nil) {
            return Err(ty("list-tail"));
        }
        for _ in 0..index(&a[1])? {
            cur = cdr(&cur)?;
        }
        Ok(cur)
    }),
    pure!("list-ref", 2, Some(2), |a| {
        let mut cur = a[0].clone();
        if !matches!(cur, Val::Pair(_) | Val::Nil) {
            return Err(ty("list-ref"));
        }
        for _ in 0..index(&a[1])? {
            cur = cdr(&cur)?;
        }
        car(&cur)
    }),
    pure!("memq", 2, Some(2), |a| mem(a, eqv)),
    pure!("memv", 2, Some(2), |a| mem(a, eqv)),
    pure!("member", 2, Some(2), |a| mem(a, equal)),
    pure!("assq", 2, Some(2), |a| ass(a, eqv)),
    pure!("assv", 2, Some(2), |a| ass(a, eqv)),
    pure!("assoc", 2, Some(2), |a| ass(a, equal)),
    pure!("null?", 1, Some(1), |a| Ok(Val::Bool(matches!(a[0], Val::Nil)))),
    pure!("pair?", 1, Some(1), |a| Ok(Val::Bool(matches!(a[0], Val::Pair(_))))),
    pure!("list?", 1, Some(1), |a| Ok(Val::Bool(list_to_vec(&a[0]).is_ok()))),
    pure!("eq?", 2, Some(2), |a| Ok(Val::Bool(eqv(&a[0], &a[1])))),
    pure!("eqv?", 2, Some(2), |a| Ok(Val::Bool(eqv(&a[0], &a[1])))),
    pure!("equal?", 2, Some(2), |a| Ok(Val::Bool(equal(&a[0], &a[1])))),
    pure!("not", 1, Some(1), |a| Ok(Val::Bool(matches!(a[0], Val::Bool(false))))),
    pure!("+", 0, None, |a| {
        let mut s = 0i64;
        for x in a {
            s = s.checked_add(int(x)?).ok_or_else(|| Fail::other("overflow"))?;
        }
        Ok(Val::Int(s))
    }),
    pure!("*", 0, None, |a| {
        let mut s = 1i64;
        for x in a {
            s = s.checked_mul(int(x)?).ok_or_else(|| Fail::other("overflow"))?;
        }
        Ok(Val::Int(s))
    }),
    pure!("-", 1, None, |a| {
        if a.len() == 1 {
            return ck(int(&a[0])?.checked_neg());
        }
        let mut s = int(&a[0])?;
        for x in &a[1..] {
            s = s.checked_sub(int(x)?).ok_or_else(|| Fail::other("overflow"))?;
        }
        Ok(Val::Int(s))
    }),
    pure!("quotient", 2, Some(2), |a| {
        let (x, y) = (int(&a[0])?, int(&a[1])?);
        if y == 0 {
            return Err(ty("division by zero"));
        }
        ck(x.checked_div(y))
    }),
    pure!("remainder", 2, Some(2), |a| {
        let (x, y) = (int(&a[0])?, int(&a[1])?);
        if y == 0 {
            return Err(ty("division by zero"));
        }
        ck(x.checked_rem(y))
    }),
    pure!("modulo", 2, Some(2), |a| {
        let (x, y) = (int(&a[0])?, int(&a[1])?);
        if y == 0 {
            return Err(ty("division by zero"));
        }
        ck(x.checked_rem_euclid(y).map(|r| if r != 0 && y < 0 { r + y } else { r }))
    }),
    pure!("=", 1, None, |a| num_cmp(a, |x, y| x == y)),
    pure!("<", 1, None, |a| num_cmp(a, |x, y| x < y)),
    pure!(">", 1, None, |a| num_cmp(a, |x, y| x > y)),
    pure!("<=", 1, None, |a| num_cmp(a, |x, y| x <= y)),
    pure!(">=", 1, None, |a| num_cmp(a, |x, y| x >= y)),
    pure!("zero?", 1, Some(1), |a| match &a[0] {
        Val::Int(i) => Ok(Val::Bool(*i == 0)),
        _ => Err(Fail::other("domain:zero? of a non-number")),
    }),
    pure!("positive?", 1, Some(1), |a| match &a[0] {
        Val::Int(i) => Ok(Val::Bool(*i > 0)),
        _ => Err(Fail::other("domain:positive? of a non-number")),
    }),
    pure!("negative?", 1, Some(1), |a| match &a[0] {
        Val::Int(i) => Ok(Val::Bool(*i < 0)),
        _ => Err(Fail::other("domain:negative? of a non-number")),
    }),
    pure!("even?", 1, Some(1), |a| match &a[0] {
        Val::Int(i) => Ok(Val::Bool(*i % 2 == 0)),
        _ => Err(Fail::other("domain:even? of a non-number")),
    }),
    pure!("odd?", 1, Some(1), |a| match &a[0] {
        Val::Int(i) => Ok(Val::Bool(*i % 2 != 0)),
        _ => Err(Fail::other("domain:odd? of a non-number")),
    }),
    pure!("abs", 1, Some(1), |a| ck(int(&a[0])?.checked_abs())),
    pure!("min", 2, None, |a| {
        let mut m = int(&a[0])?;
        for x in &a[1..] {
            m = m.min(int(x)?);
        }
        Ok(Val::Int(m))
    }),
    pure!("max", 2, None, |a| {
        let mut m = int(&a[0])?;
        for x in &a[1..] {
            m = m.max(int(x)?);
        }
        Ok(Val::Int(m))
    }),
    pure!("number?", 1, Some(1), |a| Ok(Val::Bool(matches!(a[0], Val::Int(_))))),
    pure!("integer?", 1, Some(1), |a| Ok(Val::Bool(matches!(a[0], Val::Int(_))))),
    pure!("boolean?", 1, Some(1), |a| Ok(Val::Bool(matches!(a[0], Val::Bool(_))))),
    pure!("symbol?", 1, Some(1), |a| Ok(Val::Bool(matches!(a[0], Val::Sym(_))))),
    pure!("string?", 1, Some(1), |a| Ok(Val::Bool(matches!(a[0], Val::Str(_))))),
    pure!("char?", 1, Some(1), |a| Ok(Val::Bool(matches!(a[0], Val::Char(_))))),
    pure!("vector?", 1, Some(1), |a| Ok(Val::Bool(matches!(a[0], Val::Vector(_))))),
    pure!("procedure?", 1, Some(1), |a| Ok(Val::Bool(matches!(a[0], Val::Clo(_) | Val::Prim(_) | Val::Cont(_))))),
    pure!("vector", 0, None, |a| Ok(Val::Vector(Rc::new(RefCell::new(a.to_vec()))))),
    pure!("make-vector", 1, Some(2), |a| {
        let n = index(&a[0])?;
        if n > 100_000 {
            return Err(Fail::other("domain:huge vector"));
        }
        if a.len() < 2 {
            return Err(Fail::other("domain:make-vector without fill"));
        }
        Ok(Val::Vector(Rc::new(RefCell::new(vec![a[1].clone(); n]))))
    }),
    pure!("vector-length", 1, Some(1), |a| match &a[0] {
        Val::Vector(v) => Ok(Val::Int(v.borrow().len() as i64)),
        _ => Err(ty("not a vector")),
    }),
    pure!("vector-ref", 2, Some(2), |a| match &a[0] {
        Val::Vector(v) => v.borrow().get(index(&a[1])?).cloned().ok_or_else(|| ty("index out of range")),
        _ => Err(ty("not a vector")),
    }),
    pure!("vector-set!", 3, Some(3), |a| match &a[0] {
        Val::Vector(v) => {
            let i = index(&a[1])?;
            let mut v = v.borrow_mut();
            if i >= v.len() {
                return Err(ty("index out of range"));
            }
            v[i] = a[2].clone();
            Ok(Val::Unspec)
        }
        _ => Err(ty("not a vector")),
    }),
    pure!("vector-fill!", 2, Some(2), |a| match &a[0] {
        Val::Vector(v) => {
            for slot in v.borrow_mut().iter_mut() {
                *slot = a[1].clone();
            }
            Ok(Val::Unspec)
        }
        _ => Err(ty("not a vector")),
    }),
    pure!("vector-copy", 1, Some(2), |a| match &a[0] {
        Val::Vector(v) => {
            let v = v.borrow();
            let start = if a.len() > 1 { index(&a[1])? } else { 0 };
            if start > v.len() {
                return Err(ty("start out of range"));
            }
            Ok(Val::Vector(Rc::new(RefCell::new(v[start..].to_vec()))))
        }
        _ => Err(ty("not a vector")),
    }),
    pure!("vector-copy!", 3, Some(5), |a| match (&a[0], &a[2]) {
        (Val::Vector(to), Val::Vector(from)) => {
            let at = index(&a[1])?;
            let src: Vec<Val> = from.borrow().clone();
            let start = if a.len() > 3 { index(&a[3])? } else { 0 };
            let end = if a.len() > 4 { index(&a[4])? } else { src.len() };
            if start > end || end > src.len() {
                return Err(ty("source range out of bounds"));
            }
            let mut to = to.borrow_mut();
            if at > to.len() || to.len() - at < end - start {
                return Err(ty("target too small"));
            }
            for (k, v) in src[start..end].iter().enumerate() {
                to[at + k] = v.clone();
            }
            Ok(Val::Unspec)
        }
        _ => Err(ty("not a vector")),
    }),
    pure!("vector->list", 1, Some(1), |a| match &a[0] {
        Val::Vector(v) => Ok(list_of(v.borrow().clone())),
        _ => Err(ty("not a vector")),
    }),
    pure!("list->vector", 1, Some(1), |a| Ok(Val::Vector(Rc::new(RefCell::new(list_to_vec(&a[0])?))))),
    pure!("string-length", 1, Some(1), |a| match &a[0] {
        Val::Str(s) => Ok(Val::Int(s.borrow().chars().count() as i64)),
        _ => Err(ty("not a string")),
    }),
    pure!("string-append", 1, None, |a| {
        let mut out = String::new();
        for s in a {
            match s {
                Val::Str(s) => out.push_str(&s.borrow()),
                _ => return Err(ty("not a string")),
            }
        }
        Ok(Val::Str(Rc::new(RefCell::new(out))))
    }),
    pure!("string=?", 2, None, |a| {
        let mut ok = true;
        for w in a.windows(2) {
            match (&w[0], &w[1]) {
                (Val::Str(x), Val::Str(y)) => {
                    if *x.borrow() != *y.borrow() {
                        ok = false;
                    }
                }
                _ => return Err(ty("not a string")),
            }
        }
        Ok(Val::Bool(ok))
    }),
    pure!("symbol->string", 1, Some(1), |a| match &a[0] {
        Val::Sym(s) => Ok(Val::Str(Rc::new(RefCell::new(s.to_string())))),
        _ => Err(ty("not a symbol")),
    }),
    pure!("string->symbol", 1, Some(1), |a| match &a[0] {
        Val::Str(s) => {
            let s = s.borrow();
            if s.is_empty() || !s.chars().all(|c| c.is_ascii_alphanumeric() || c == '-') || s.chars().next().unwrap().is_ascii_digit() {
                return Err(Fail::other("domain:string->symbol of an exotic name"));
            }
            Ok(Val::Sym(Rc::from(s.as_str())))
        }
        _ => Err(ty("not a string")),
    }),
    pure!("char->integer", 1, Some(1), |a| match &a[0] {
        Val::Char(c) => Ok(Val::Int(*c as i64)),
        _ => Err(ty("not a char")),
    }),
    pure!("char=?", 2, None, |a| {
        let mut ok = true;
        for w in a.windows(2) {
            match (&w[0], &w[1]) {
                (Val::Char(x), Val::Char(y)) => {
                    if x != y {
                        ok = false;
                    }
                }
                _ => return Err(ty("not a char")),
            }
        }
        Ok(Val::Bool(ok))
    }),
    Prim { name: "apply", min: 2, max: None, f: PrimFn::Special(Special::Apply) },
    Prim { name: "call/cc", min: 1, max: Some(1), f: PrimFn::Special(Special::CallCC) },
    Prim { name: "eval", min: 1, max: Some(1), f: PrimFn::Special(Special::Eval) },
    Prim { name: "error", min: 1, max: None, f: PrimFn::Special(Special::Error) },
    Prim { name: "display", min: 1, max: Some(1), f: PrimFn::Special(Special::Display) },
    Prim { name: "write", min: 1, max: Some(1), f: PrimFn::Special(Special::Write) },
    Prim { name: "force", min: 1, max: Some(1), f: PrimFn::Special(Special::Force) },
];
