//! Differential plumbing: run forms in marwood with a recording SystemInterface, classify
//! failures, compare with the model's outcome.
use crate::mw::{catch, PanicInfo};
use crate::refscheme::{d_of_cell, FailClass, FormResult, Mode, Outcome, D};
use marwood::cell::Cell;
use marwood::error::Error;
use marwood::vm::{SystemInterface, Vm};
use std::cell::RefCell;
use std::rc::Rc;

#[derive(Debug, Clone)]
pub struct Recorder {
    pub events: Rc<RefCell<Vec<(Mode, D)>>>,
}

impl SystemInterface for Recorder {
    fn display(&self, cell: &Cell) {
        self.events.borrow_mut().push((Mode::Display, d_of_cell(cell)));
    }
    fn write(&self, cell: &Cell) {
        self.events.borrow_mut().push((Mode::Write, d_of_cell(cell)));
    }
    fn terminal_dimensions(&self) -> (usize, usize) {
        (80, 24)
    }
    fn time_utc(&self) -> u64 {
        0
    }
}

pub struct MwVm {
    pub vm: Vm,
    pub events: Rc<RefCell<Vec<(Mode, D)>>>,
}

impl MwVm {
    pub fn new() -> MwVm {
        let events = Rc::new(RefCell::new(vec![]));
        let mut vm = Vm::new();
        vm.set_system_interface(Box::new(Recorder { events: events.clone() }));
        MwVm { vm, events }
    }
}

impl Default for MwVm {
    fn default() -> Self {
        MwVm::new()
    }
}

pub const INSTR_BUDGET: usize = 50_000_000;
const BUDGET_MARK: &str = "\u{0}mwv-instruction-budget-exhausted";

#[derive(Clone, Debug)]
pub enum MwOutcome {
    /// the instruction watchdog fired (inconclusive, never a verdict)
    Budget,
    Value(D),
    Failure(FailClass, Vec<D>, String),
    Panic(PanicInfo),
}

#[derive(Clone, Debug)]
pub struct MwForm {
    pub outcome: MwOutcome,
    pub output: Vec<(Mode, D)>,
    pub trace_frames: Option<usize>,
}

pub fn classify(e: &Error) -> (FailClass, Vec<D>) {
    match e {
        Error::VariableNotBound(_) => (FailClass::Unbound, vec![]),
        Error::InvalidProcedure(_) => (FailClass::NotAProcedure, vec![]),
        Error::InvalidNumArgs(_) => (FailClass::WrongArity, vec![]),
        Error::ErrorSignal(cells) => (FailClass::UserError, cells.iter().map(d_of_cell).collect()),
        _ => (FailClass::Other, vec![]),
    }
}

/// Evaluate one form (a Cell) in marwood, recording output.
pub fn run_form(m: &mut MwVm, form: &Cell) -> MwForm {
    m.events.borrow_mut().clear();
    let r = catch(|| match m.vm.prepare_eval(form) {
        Ok(()) => match m.vm.run_count(INSTR_BUDGET) {
            Ok(Some(c)) => Ok(c),
            Ok(None) => Err(Error::InvalidSyntax(BUDGET_MARK.into())),
            Err(e) => Err(e),
        },
        Err(e) => Err(e),
    });
    let output = m.events.borrow().clone();
    match r {
        Ok(Err(Error::InvalidSyntax(s))) if s == BUDGET_MARK => {
            // instruction budget exhausted: the VM is mid-evaluation, discard it
            *m = MwVm::new();
            MwForm { outcome: MwOutcome::Budget, output, trace_frames: None }
        }
        Err(p) => MwForm { outcome: MwOutcome::Panic(p), output, trace_frames: None },
        Ok(Ok(c)) => MwForm { outcome: MwOutcome::Value(d_of_cell(&c)), output, trace_frames: None },
        Ok(Err(e)) => {
            let (class, payload) = classify(&e);
            let frames = m.vm.last_stacktrace().map(|t| t.frames.len());
            MwForm { outcome: MwOutcome::Failure(class, payload, format!("{}", catch(|| e.to_string()).unwrap_or_else(|_| "<error display panicked>".into()))), output, trace_frames: frames }
        }
    }
}

/// Like run_form, but the evaluation is driven in slices of `budget` instructions (prepare_eval +
/// repeated run_count), the way an embedder with a cooperative scheduler drives it.
pub fn run_form_sliced(m: &mut MwVm, form: &Cell, budget: usize) -> MwForm {
    m.events.borrow_mut().clear();
    let budget = budget.max(1);
    let r = catch(|| match m.vm.prepare_eval(form) {
        Ok(()) => {
            let mut spent: usize = 0;
            loop {
                match m.vm.run_count(budget) {
                    Ok(Some(c)) => break Ok(c),
                    Ok(None) => {
                        spent = spent.saturating_add(budget);
                        if spent > INSTR_BUDGET {
                            break Err(Error::InvalidSyntax(BUDGET_MARK.into()));
                        }
                    }
                    Err(e) => break Err(e),
                }
            }
        }
        Err(e) => Err(e),
    });
    let output = m.events.borrow().clone();
    match r {
        Ok(Err(Error::InvalidSyntax(s))) if s == BUDGET_MARK => {
            *m = MwVm::new();
            MwForm { outcome: MwOutcome::Budget, output, trace_frames: None }
        }
        Err(p) => MwForm { outcome: MwOutcome::Panic(p), output, trace_frames: None },
        Ok(Ok(c)) => MwForm { outcome: MwOutcome::Value(d_of_cell(&c)), output, trace_frames: None },
        Ok(Err(e)) => {
            let (class, payload) = classify(&e);
            let frames = m.vm.last_stacktrace().map(|t| t.frames.len());
            MwForm { outcome: MwOutcome::Failure(class, payload, format!("{}", catch(|| e.to_string()).unwrap_or_else(|_| "<error display panicked>".into()))), output, trace_frames: frames }
        }
    }
}

/// None if they agree; otherwise a short mismatch kind plus a description.
pub fn compare(model: &FormResult, mw: &MwForm) -> Option<(String, String)> {
    // output first: order and content of display/write events
    if model.output.len() != mw.output.len() || !model.output.iter().zip(mw.output.iter()).all(|(a, b)| a.0 == b.0 && a.1.matches(&b.1)) {
        return Some((
            "output-differs".into(),
            format!("model output {:?} vs marwood {:?}", model.output.iter().map(|(m, d)| format!("{:?}:{}", m, d.show())).collect::<Vec<_>>(), mw.output.iter().map(|(m, d)| format!("{:?}:{}", m, d.show())).collect::<Vec<_>>()),
        ));
    }
    match (&model.outcome, &mw.outcome) {
        (_, MwOutcome::Budget) => Some(("watchdog".into(), "marwood exceeded the instruction budget".into())),
        (_, MwOutcome::Panic(p)) => Some(("panic".into(), format!("marwood panicked: {} at {}", p.message, p.location))),
        (Outcome::Value(a), MwOutcome::Value(b)) => {
            if a.matches(b) {
                None
            } else {
                Some(("value-differs".into(), format!("model value {} vs marwood {}", a.show(), b.show())))
            }
        }
        (Outcome::Failure(ca, pa, na), MwOutcome::Failure(cb, pb, nb)) => {
            if ca != cb {
                Some((format!("failure-class-differs:{:?}-vs-{:?}", ca, cb), format!("model failure {:?} ({}) vs marwood {:?} ({})", ca, na, cb, nb)))
            } else if *ca == FailClass::UserError && !(pa.len() == pb.len() && pa.iter().zip(pb.iter()).all(|(x, y)| x.matches(y))) {
                Some(("error-payload-differs".into(), format!("model payload {:?} vs marwood {:?}", pa.iter().map(|d| d.show()).collect::<Vec<_>>(), pb.iter().map(|d| d.show()).collect::<Vec<_>>())))
            } else {
                None
            }
        }
        (Outcome::Value(a), MwOutcome::Failure(cb, _, nb)) => Some((format!("failure-instead-of-value:{:?}", cb), format!("model value {} vs marwood failure {:?} ({})", a.show(), cb, nb))),
        (Outcome::Failure(ca, _, na), MwOutcome::Value(b)) => Some((format!("value-instead-of-failure:{:?}", ca), format!("model failure {:?} ({}) vs marwood value {}", ca, na, b.show()))),
    }
}

pub fn show_outcome(o: &MwOutcome) -> String {
    match o {
        MwOutcome::Budget => "<instruction budget exhausted>".into(),
        MwOutcome::Value(d) => d.show(),
        MwOutcome::Failure(c, p, n) => format!("failure {:?} {:?} ({})", c, p.iter().map(|d| d.show()).collect::<Vec<_>>(), n),
        MwOutcome::Panic(p) => format!("PANIC {} at {}", p.message, p.location),
    }
}

pub fn show_model(o: &Outcome) -> String {
    match o {
        Outcome::Value(d) => d.show(),
        Outcome::Failure(c, p, n) => format!("failure {:?} {:?} ({})", c, p.iter().map(|d| d.show()).collect::<Vec<_>>(), n),
    }
}
