//! Program generators (DESIGN.md 4.2): typed-hole generation of well-scoped Scheme sessions as
//! S-expressions (`Cell`), with tags recording the feature combinations used.
use crate::rng::Rng;
use marwood::cell::Cell;
use marwood::number::Number;
use std::collections::BTreeSet;

// ---------- S-expression helpers ----------
pub fn sym(s: &str) -> Cell {
    Cell::Symbol(s.to_string())
}
pub fn int(i: i64) -> Cell {
    Cell::Number(Number::Fixnum(i))
}
pub fn list(items: Vec<Cell>) -> Cell {
    Cell::new_list(items)
}
pub fn call(head: &str, mut args: Vec<Cell>) -> Cell {
    let mut v = vec![sym(head)];
    v.append(&mut args);
    Cell::new_list(v)
}
pub fn quote(c: Cell) -> Cell {
    list(vec![sym("quote"), c])
}
pub fn text_of(forms: &[Cell]) -> String {
    forms.iter().map(|f| format!("{:#}", f)).collect::<Vec<_>>().join("\n")
}

#[derive(Clone, Copy, Debug, PartialEq)]
pub enum Ty {
    Int,
    Bool,
    /// proper list of ints
    List,
    /// Int -> Int procedure
    Fn1,
}

#[derive(Clone, Debug)]
pub struct Var {
    pub name: String,
    pub ty: Ty,
    pub mutable: bool,
}

#[derive(Clone, Debug)]
pub struct Proc {
    pub name: String,
    pub fixed: usize,
    pub rest: bool,
    /// returns Int (default) or an Int->Int closure
    pub ret: Ty,
}

#[derive(Clone, Default)]
pub struct Scope {
    pub vars: Vec<Var>,
    pub procs: Vec<Proc>,
}

#[derive(Clone, Debug)]
pub struct Opts {
    pub max_depth: usize,
    /// allow call/cc productions (simple escapes) in ordinary expressions
    pub callcc: bool,
    /// allow display/write statements
    pub output: bool,
    /// allow eval productions
    pub eval: bool,
    /// allow quasiquote productions
    pub quasi: bool,
    /// allow unquote to mention lambda-bound variables of an *enclosing* procedure inside an inner one
    pub quasi_in_closure: bool,
    /// procedure bodies and expressions never assign global variables (local assignments stay)
    pub no_global_effects: bool,
    /// use abs / max / min / quotient, the built-ins a session may rebind to counting wrappers
    pub wrappable_builtins: bool,
}

impl Default for Opts {
    fn default() -> Self {
        Opts { max_depth: 5, callcc: true, output: true, eval: true, quasi: true, quasi_in_closure: true, no_global_effects: false, wrappable_builtins: true }
    }
}

pub struct Gen<'a> {
    /// prefix of generated global names (so that two generators never collide)
    pub prefix: String,
    pub rng: &'a mut Rng,
    pub opts: Opts,
    pub tags: BTreeSet<String>,
    counter: usize,
    /// global data variables and procedures defined so far in the session
    pub globals: Scope,
    /// nesting of lambdas we are currently inside (for tags)
    lambda_depth: usize,
    size: usize,
}

const NAMES: [&str; 12] = ["a", "b", "c", "d", "e", "m", "n", "p", "q", "u", "v", "w"];

impl<'a> Gen<'a> {
    pub fn new(rng: &'a mut Rng, opts: Opts) -> Gen<'a> {
        Gen { prefix: String::new(), rng, opts, tags: BTreeSet::new(), counter: 0, globals: Scope::default(), lambda_depth: 0, size: 0 }
    }

    fn tag(&mut self, t: &str) {
        self.tags.insert(t.to_string());
    }

    pub fn fresh(&mut self, prefix: &str) -> String {
        self.counter += 1;
        format!("{}{}{}", self.prefix, prefix, self.counter)
    }

    fn local_name(&mut self, scope: &Scope) -> String {
        // prefer short names that may shadow outer ones (shadowing is the point), sometimes fresh
        if self.rng.chance(2, 3) {
            let n = *self.rng.pick(&NAMES);
            let _ = scope;
            n.to_string()
        } else {
            self.fresh("x")
        }
    }

    fn lit(&mut self) -> Cell {
        int(self.rng.range(-9, 20))
    }

    fn vars_of(&self, scope: &Scope, ty: Ty) -> Vec<Var> {
        // innermost binding wins: later entries shadow earlier ones with the same name
        let mut out: Vec<Var> = vec![];
        let mut seen = BTreeSet::new();
        for v in scope.vars.iter().rev().chain(self.globals.vars.iter().rev()) {
            if seen.insert(v.name.clone()) && v.ty == ty {
                out.push(v.clone());
            }
        }
        out
    }

    /// variables of type Int that the current options allow to be assigned
    fn assignable(&self, scope: &Scope) -> Vec<Var> {
        let all: Vec<Var> = self.vars_of(scope, Ty::Int).into_iter().filter(|v| v.mutable).collect();
        if self.opts.no_global_effects {
            let locals: BTreeSet<String> = scope.vars.iter().map(|v| v.name.clone()).collect();
            all.into_iter().filter(|v| locals.contains(&v.name)).collect()
        } else {
            all
        }
    }

    fn procs_of(&self, scope: &Scope) -> Vec<Proc> {
        let mut out: Vec<Proc> = vec![];
        let mut seen = BTreeSet::new();
        // a local *variable* shadows a procedure of the same name
        let shadowed: BTreeSet<String> = scope.vars.iter().map(|v| v.name.clone()).collect();
        for p in scope.procs.iter().rev().chain(self.globals.procs.iter().rev()) {
            if seen.insert(p.name.clone()) && !shadowed.contains(&p.name) {
                out.push(p.clone());
            }
        }
        out
    }

    // ---------------- expressions ----------------

    pub fn expr(&mut self, ty: Ty, scope: &Scope, depth: usize) -> Cell {
        self.size += 1;
        if depth == 0 || self.size > 400 {
            return self.leaf(ty, scope);
        }
        match ty {
            Ty::Int => self.int_expr(scope, depth),
            Ty::Bool => self.bool_expr(scope, depth),
            Ty::List => self.list_expr(scope, depth),
            Ty::Fn1 => self.fn1_expr(scope, depth),
        }
    }

    fn leaf(&mut self, ty: Ty, scope: &Scope) -> Cell {
        let vars = self.vars_of(scope, ty);
        if !vars.is_empty() && self.rng.chance(2, 3) {
            return sym(&self.rng.pick(&vars).name.clone());
        }
        match ty {
            Ty::Int => self.lit(),
            Ty::Bool => Cell::Bool(self.rng.bool()),
            Ty::List => {
                let n = self.rng.usize(4);
                quote(list((0..n).map(|_| self.lit()).collect()))
            }
            Ty::Fn1 => {
                let k = self.lit();
                list(vec![sym("lambda"), list(vec![sym("z")]), call("+", vec![sym("z"), k])])
            }
        }
    }

    fn args_for(&mut self, p: &Proc, scope: &Scope, depth: usize) -> Vec<Cell> {
        let extra = if p.rest { self.rng.usize(3) } else { 0 };
        (0..p.fixed + extra).map(|_| self.expr(Ty::Int, scope, depth)).collect()
    }

    fn call_proc(&mut self, p: &Proc, scope: &Scope, depth: usize) -> Cell {
        let args = self.args_for(p, scope, depth);
        if p.rest {
            self.tag("variadic-call");
        }
        match self.rng.usize(6) {
            0 if !args.is_empty() => {
                // through apply: spread some, list the rest
                let k = self.rng.usize(args.len() + 1);
                let mut v = vec![sym(&p.name)];
                v.extend(args[..k].iter().cloned());
                v.push(call("list", args[k..].to_vec()));
                self.tag(if p.rest { "variadic-through-apply" } else { "apply" });
                call("apply", v)
            }
            1 if args.is_empty() => {
                self.tag("apply");
                call("apply", vec![sym(&p.name), quote(Cell::Nil)])
            }
            _ => call(&p.name, args),
        }
    }

    fn body(&mut self, ty: Ty, scope: &Scope, depth: usize) -> Vec<Cell> {
        // optional statements, then the value expression
        let mut out = vec![];
        let n = if self.rng.chance(1, 3) { 1 + self.rng.usize(2) } else { 0 };
        for _ in 0..n {
            if let Some(s) = self.stmt(scope, depth.saturating_sub(1)) {
                out.push(s);
            }
        }
        out.push(self.expr(ty, scope, depth));
        out
    }

    fn lambda_expr(&mut self, fixed: usize, rest: bool, ret: Ty, scope: &Scope, depth: usize) -> (Cell, Vec<String>) {
        let mut inner = scope.clone();
        let mut names = vec![];
        for _ in 0..fixed {
            let mut n = self.local_name(&inner);
            while names.contains(&n) {
                n = self.fresh("x");
            }
            names.push(n.clone());
            inner.vars.push(Var { name: n, ty: Ty::Int, mutable: true });
        }
        let mut formals: Cell = if rest {
            let mut n = self.local_name(&inner);
            while names.contains(&n) {
                n = self.fresh("r");
            }
            inner.vars.push(Var { name: n.clone(), ty: Ty::List, mutable: false });
            names.push(n.clone());
            sym(&n)
        } else {
            Cell::Nil
        };
        for n in names[..fixed].iter().rev() {
            formals = Cell::new_pair(sym(n), formals);
        }
        self.lambda_depth += 1;
        let mut body = vec![];
        // internal definitions at the head of the body
        if depth > 1 && self.rng.chance(1, 5) {
            let dn = self.fresh("i");
            let init = self.expr(Ty::Int, &inner, depth - 1);
            body.push(call("define", vec![sym(&dn), init]));
            inner.vars.push(Var { name: dn, ty: Ty::Int, mutable: true });
            self.tag("internal-define");
        }
        // an internal procedure whose formal has the name of an integer variable visible here: the
        // formal is bound inside that procedure only, the rest of the body keeps seeing the outer variable
        let ints: Vec<String> = inner.vars.iter().filter(|v| v.ty == Ty::Int).map(|v| v.name.clone()).collect();
        if !ints.is_empty() && self.rng.chance(1, 5) {
            let shadow = self.rng.pick(&ints).clone();
            let hn = self.fresh("ip");
            body.push(list(vec![sym("define"), list(vec![sym(&hn), sym(&shadow)]), call("+", vec![sym(&shadow), int(1)])]));
            self.tag("internal-procedure-whose-formal-shadows");
            // make sure the outer variable is read after the definition
            let rest = self.body(ret, &inner, depth.saturating_sub(1));
            body.push(call(&hn, vec![sym(&shadow)]));
            body.extend(rest);
        } else {
            body.extend(self.body(ret, &inner, depth.saturating_sub(1)));
        }
        self.lambda_depth -= 1;
        let mut v = vec![sym("lambda"), formals];
        v.extend(body);
        (list(v), names)
    }

    fn int_expr(&mut self, scope: &Scope, depth: usize) -> Cell {
        let d = depth - 1;
        let choice = self.rng.usize(36);
        match choice {
            // built-ins that neither the prelude nor any other generated form uses: a session may wrap
            // one of them later (see session()), and code compiled before must then call the wrapper
            34 | 35 if !self.opts.wrappable_builtins => self.leaf(Ty::Int, scope),
            34 | 35 => match self.rng.usize(4) {
                0 => call("abs", vec![self.expr(Ty::Int, scope, d)]),
                1 => call("max", vec![self.expr(Ty::Int, scope, d), self.expr(Ty::Int, scope, d)]),
                2 => call("min", vec![self.expr(Ty::Int, scope, d), int(self.rng.range(-5, 5))]),
                _ => call("quotient", vec![self.expr(Ty::Int, scope, d), int(*self.rng.pick(&[2i64, 3, 7, -4]))]),
            },
            0 | 1 => self.leaf(Ty::Int, scope),
            2 | 3 => {
                let op = *self.rng.pick(&["+", "-", "+"]);
                let n = 2 + self.rng.usize(2);
                call(op, (0..n).map(|_| self.expr(Ty::Int, scope, d)).collect())
            }
            4 => call("*", vec![self.expr(Ty::Int, scope, d), int(self.rng.range(-3, 3))]),
            5 => {
                self.tag("if");
                list(vec![sym("if"), self.expr(Ty::Bool, scope, d), self.expr(Ty::Int, scope, d), self.expr(Ty::Int, scope, d)])
            }
            6 | 7 => {
                // let / let*
                let star = self.rng.bool();
                let n = 1 + self.rng.usize(3);
                let mut inner = scope.clone();
                let mut bindings = vec![];
                let mut used = vec![];
                for _ in 0..n {
                    let mut name = self.local_name(&inner);
                    while used.contains(&name) {
                        name = self.fresh("x");
                    }
                    used.push(name.clone());
                    let ty = if self.rng.chance(1, 5) { Ty::List } else { Ty::Int };
                    let init = if star { self.expr(ty, &inner, d) } else { self.expr(ty, scope, d) };
                    bindings.push(list(vec![sym(&name), init]));
                    let v = Var { name, ty, mutable: true };
                    if star {
                        inner.vars.push(v);
                    } else {
                        // parallel let: visible only in the body
                        used.push(v.name.clone());
                        inner.vars.push(v);
                    }
                }
                // for plain let the inits were generated against the outer scope, fine
                self.tag(if star { "let*" } else { "let" });
                let mut v = vec![sym(if star { "let*" } else { "let" }), list(bindings)];
                v.extend(self.body(Ty::Int, &inner, d));
                list(v)
            }
            8 => {
                // letrec loop with a bounded count
                self.tag("letrec");
                let lp = self.fresh("lp");
                let n = self.rng.range(0, 6);
                let mut inner = scope.clone();
                inner.vars.push(Var { name: "i".into(), ty: Ty::Int, mutable: false });
                inner.vars.push(Var { name: "acc".into(), ty: Ty::Int, mutable: false });
                let step = self.expr(Ty::Int, &inner, d.min(2));
                let lam = list(vec![
                    sym("lambda"),
                    list(vec![sym("i"), sym("acc")]),
                    list(vec![sym("if"), call("<=", vec![sym("i"), int(0)]), sym("acc"), call(&lp, vec![call("-", vec![sym("i"), int(1)]), call("+", vec![sym("acc"), step])])]),
                ]);
                list(vec![sym("letrec"), list(vec![list(vec![sym(&lp), lam])]), call(&lp, vec![int(n), self.expr(Ty::Int, scope, d)])])
            }
            9 => {
                // named let
                self.tag("named-let");
                let mut lp = self.fresh("nl");
                let n = self.rng.range(0, 6);
                let mut inner = scope.clone();
                // one time in three the tag shadows an integer variable that the second init reads:
                // the inits are outside the tag's scope, the body is inside
                let ints: Vec<String> = scope.vars.iter().filter(|v| v.ty == Ty::Int).map(|v| v.name.clone()).collect();
                let mut shadowed: Option<String> = None;
                if !ints.is_empty() && self.rng.chance(1, 3) {
                    let v = self.rng.pick(&ints).clone();
                    inner.vars.retain(|x| x.name != v);
                    lp = v.clone();
                    shadowed = Some(v);
                    self.tag("named-let-tag-shadows-variable-used-in-init");
                }
                inner.vars.push(Var { name: "i".into(), ty: Ty::Int, mutable: false });
                inner.vars.push(Var { name: "acc".into(), ty: Ty::Int, mutable: false });
                let step = self.expr(Ty::Int, &inner, d.min(2));
                list(vec![
                    sym("let"),
                    sym(&lp),
                    list(vec![
                        list(vec![sym("i"), int(n)]),
                        list(vec![
                            sym("acc"),
                            match &shadowed {
                                Some(v) => call("+", vec![sym(v), self.expr(Ty::Int, scope, d)]),
                                None => self.expr(Ty::Int, scope, d),
                            },
                        ]),
                    ]),
                    list(vec![sym("if"), call("=", vec![sym("i"), int(0)]), sym("acc"), call(&lp, vec![call("-", vec![sym("i"), int(1)]), call("+", vec![sym("acc"), step])])]),
                ])
            }
            10 => {
                self.tag("begin");
                let mut v = vec![sym("begin")];
                v.extend(self.body(Ty::Int, scope, d));
                list(v)
            }
            11 | 12 => {
                // cond
                self.tag("cond");
                let n = 1 + self.rng.usize(3);
                let mut clauses = vec![];
                for _ in 0..n {
                    if self.rng.chance(1, 5) {
                        self.tag("cond-arrow");
                        let key = self.expr(Ty::Int, scope, d);
                        clauses.push(list(vec![call("assv", vec![key, quote(list(vec![Cell::new_pair(int(1), int(10)), Cell::new_pair(int(2), int(20)), Cell::new_pair(int(3), int(30))]))]), sym("=>"), sym("cdr")]));
                    } else {
                        let mut c = vec![self.expr(Ty::Bool, scope, d)];
                        c.extend(self.body(Ty::Int, scope, d));
                        clauses.push(list(c));
                    }
                }
                let mut e = vec![sym("else")];
                e.extend(self.body(Ty::Int, scope, d));
                clauses.push(list(e));
                let mut v = vec![sym("cond")];
                v.extend(clauses);
                list(v)
            }
            13 => {
                self.tag("case");
                let key = self.expr(Ty::Int, scope, d);
                let mut v = vec![sym("case"), key];
                let n = 1 + self.rng.usize(2);
                for _ in 0..n {
                    let k = 1 + self.rng.usize(3);
                    let data: Vec<Cell> = (0..k).map(|_| int(self.rng.range(-3, 8))).collect();
                    v.push(list(vec![list(data), self.expr(Ty::Int, scope, d)]));
                }
                v.push(list(vec![sym("else"), self.expr(Ty::Int, scope, d)]));
                list(v)
            }
            14 => {
                self.tag("and-or");
                if self.rng.bool() {
                    call("and", vec![self.expr(Ty::Bool, scope, d), self.expr(Ty::Int, scope, d)]).pipe(|e| list(vec![sym("let"), list(vec![list(vec![sym("t"), e])]), list(vec![sym("if"), sym("t"), sym("t"), int(0)])]))
                } else {
                    call("or", vec![Cell::Bool(false), self.expr(Ty::Int, scope, d)])
                }
            }
            15 | 16 | 17 => {
                let procs: Vec<Proc> = self.procs_of(scope).into_iter().filter(|p| p.ret == Ty::Int).collect();
                if procs.is_empty() {
                    return self.leaf(Ty::Int, scope);
                }
                let p = self.rng.pick(&procs).clone();
                self.tag("call-global-or-local-proc");
                self.call_proc(&p, scope, d)
            }
            18 | 19 => {
                // immediately applied lambda, fixed or variadic
                let fixed = self.rng.usize(3);
                let rest = self.rng.chance(1, 3);
                let (lam, _) = self.lambda_expr(fixed, rest, Ty::Int, scope, d);
                let extra = if rest { self.rng.usize(3) } else { 0 };
                let mut v = vec![lam];
                for _ in 0..fixed + extra {
                    v.push(self.expr(Ty::Int, scope, d));
                }
                self.tag(if rest { "variadic-lambda-applied" } else { "lambda-applied" });
                list(v)
            }
            20 => {
                // list operations yielding ints
                match self.rng.usize(5) {
                    0 => call("length", vec![self.expr(Ty::List, scope, d)]),
                    1 => call("apply", vec![sym("+"), self.expr(Ty::List, scope, d)]),
                    2 => call("car", vec![call("cons", vec![self.expr(Ty::Int, scope, d), self.expr(Ty::List, scope, d)])]),
                    3 => {
                        let n = 1 + self.rng.usize(3);
                        let idx = self.rng.usize(n);
                        call("list-ref", vec![call("list", (0..n).map(|_| self.expr(Ty::Int, scope, d)).collect()), int(idx as i64)])
                    }
                    _ => {
                        let n = 1 + self.rng.usize(3);
                        let idx = self.rng.usize(n);
                        self.tag("vector");
                        call("vector-ref", vec![call("vector", (0..n).map(|_| self.expr(Ty::Int, scope, d)).collect()), int(idx as i64)])
                    }
                }
            }
            21 if self.rng.chance(1, 3) => {
                // R7RS 4.2.5: a promise that forces itself re-entrantly keeps the first value delivered
                self.tag("delay-force");
                self.tag("reentrant-force");
                let pn = self.fresh("pr");
                let cn = self.fresh("cnt");
                let lim = self.rng.usize(4) as i64;
                let step = 1 + self.rng.usize(9) as i64;
                let body = list(vec![
                    sym("begin"),
                    list(vec![sym("set!"), sym(&cn), call("+", vec![sym(&cn), int(1)])]),
                    list(vec![sym("if"), call(">", vec![sym(&cn), int(lim)]), sym(&cn), call("+", vec![call("force", vec![sym(&pn)]), int(step)])]),
                ]);
                list(vec![
                    sym("let"),
                    list(vec![list(vec![sym(&cn), int(0)]), list(vec![sym(&pn), Cell::Bool(false)])]),
                    list(vec![sym("set!"), sym(&pn), call("delay", vec![body])]),
                    call("+", vec![call("force", vec![sym(&pn)]), call("*", vec![int(100), call("force", vec![sym(&pn)])]), call("*", vec![int(10000), sym(&cn)])]),
                ])
            }
            21 => {
                self.tag("delay-force");
                let pn = self.fresh("pr");
                let inner = self.expr(Ty::Int, scope, d);
                list(vec![sym("let"), list(vec![list(vec![sym(&pn), call("delay", vec![inner])])]), call("+", vec![call("force", vec![sym(&pn)]), call("force", vec![sym(&pn)])])])
            }
            22 if self.opts.eval => {
                self.tag("eval");
                // closed datum: only literals, primitives and global *procedures*
                let empty = Scope::default();
                let e = self.expr(Ty::Int, &empty, d.min(2));
                if self.rng.bool() {
                    call("eval", vec![quote(e)])
                } else {
                    call("eval", vec![call("list", vec![quote(sym("+")), self.expr(Ty::Int, scope, d), quote(e)])])
                }
            }
            23 if self.opts.callcc => {
                self.tag("call/cc");
                let k = self.fresh("k");
                let mut inner = scope.clone();
                let _ = &mut inner;
                let v = self.expr(Ty::Int, scope, d);
                match self.rng.usize(3) {
                    0 => call("call/cc", vec![list(vec![sym("lambda"), list(vec![sym(&k)]), v])]),
                    1 => call("call/cc", vec![list(vec![sym("lambda"), list(vec![sym(&k)]), call("+", vec![int(1), call(&k, vec![v])])])]),
                    _ => call("+", vec![self.expr(Ty::Int, scope, d), call("call/cc", vec![list(vec![sym("lambda"), list(vec![sym(&k)]), list(vec![sym("if"), self.expr(Ty::Bool, scope, d), call(&k, vec![v]), int(7)])])])]),
                }
            }
            24 | 25 if self.opts.quasi => {
                self.tag("quasiquote");
                if self.lambda_depth >= 2 {
                    self.tag("quasiquote-in-nested-closure");
                }
                let t = self.quasi_template(scope, d, 0);
                match self.rng.usize(3) {
                    0 => call("length", vec![list(vec![sym("quasiquote"), list(vec![sym("q1"), t, sym("q2")])])]),
                    1 => call("car", vec![list(vec![sym("quasiquote"), list(vec![list(vec![sym("unquote"), self.expr(Ty::Int, scope, d)]), t])])]),
                    _ => {
                        self.tag("quasiquote-vector");
                        call("vector-ref", vec![list(vec![sym("quasiquote"), Cell::Vector(vec![sym("q"), list(vec![sym("unquote"), self.expr(Ty::Int, scope, d)]), t])]), int(1)])
                    }
                }
            }
            26 | 27 => {
                // closure call
                self.tag("closure-call");
                let f = self.expr(Ty::Fn1, scope, d);
                list(vec![f, self.expr(Ty::Int, scope, d)])
            }
            28 => {
                // higher-order: pass a procedure
                self.tag("higher-order");
                let f = self.expr(Ty::Fn1, scope, d);
                list(vec![list(vec![sym("lambda"), list(vec![sym("h"), sym("y")]), call("h", vec![call("h", vec![sym("y")])])]), f, self.expr(Ty::Int, scope, d)])
            }
            29 => {
                // set! then read (locals only when mutable)
                let vars: Vec<Var> = self.assignable(scope);
                if vars.is_empty() {
                    return self.leaf(Ty::Int, scope);
                }
                let v = self.rng.pick(&vars).clone();
                self.tag("set!");
                list(vec![sym("begin"), list(vec![sym("set!"), sym(&v.name), self.expr(Ty::Int, scope, d)]), sym(&v.name)])
            }
            30 => {
                self.tag("when-unless");
                let w = *self.rng.pick(&["when", "unless"]);
                let tv = self.fresh("w");
                list(vec![
                    sym("let"),
                    list(vec![list(vec![sym(&tv), self.expr(Ty::Int, scope, d)])]),
                    list(vec![sym(w), self.expr(Ty::Bool, scope, d), list(vec![sym("set!"), sym(&tv), call("+", vec![sym(&tv), int(1)])])]),
                    sym(&tv),
                ])
            }
            _ => call("+", vec![self.expr(Ty::Int, scope, d), self.expr(Ty::Int, scope, d)]),
        }
    }

    fn bool_expr(&mut self, scope: &Scope, depth: usize) -> Cell {
        let d = depth - 1;
        match self.rng.usize(10) {
            0 => Cell::Bool(self.rng.bool()),
            1 | 2 | 3 => {
                let op = *self.rng.pick(&["<", "=", ">", "<=", ">="]);
                call(op, vec![self.expr(Ty::Int, scope, d), self.expr(Ty::Int, scope, d)])
            }
            4 => call("not", vec![self.expr(Ty::Bool, scope, d)]),
            5 => {
                self.tag("and-or");
                let op = *self.rng.pick(&["and", "or"]);
                let n = self.rng.usize(4);
                call(op, (0..n).map(|_| self.expr(Ty::Bool, scope, d)).collect())
            }
            6 => call(*self.rng.pick(&["null?", "pair?", "list?"]), vec![self.expr(Ty::List, scope, d)]),
            7 => call(*self.rng.pick(&["zero?", "even?", "odd?", "positive?", "negative?"]), vec![self.expr(Ty::Int, scope, d)]),
            8 => call("equal?", vec![self.expr(Ty::List, scope, d), self.expr(Ty::List, scope, d)]),
            _ => call("eq?", vec![quote(sym(*self.rng.pick(&["a", "b"]))), quote(sym(*self.rng.pick(&["a", "b"])))]),
        }
    }

    fn list_expr(&mut self, scope: &Scope, depth: usize) -> Cell {
        let d = depth - 1;
        match self.rng.usize(12) {
            0 | 1 => self.leaf(Ty::List, scope),
            2 => {
                let n = self.rng.usize(4);
                call("list", (0..n).map(|_| self.expr(Ty::Int, scope, d)).collect())
            }
            3 => call("cons", vec![self.expr(Ty::Int, scope, d), self.expr(Ty::List, scope, d)]),
            4 => call("cdr", vec![call("cons", vec![self.expr(Ty::Int, scope, d), self.expr(Ty::List, scope, d)])]),
            5 => call("append", vec![self.expr(Ty::List, scope, d), self.expr(Ty::List, scope, d)]),
            6 => call("reverse", vec![self.expr(Ty::List, scope, d)]),
            7 | 8 => {
                self.tag("map");
                let f = self.expr(Ty::Fn1, scope, d);
                call("map", vec![f, self.expr(Ty::List, scope, d)])
            }
            9 => {
                self.tag("map");
                call("map", vec![sym(*self.rng.pick(&["+", "-", "*"])), self.expr(Ty::List, scope, d), self.expr(Ty::List, scope, d)])
            }
            10 if self.opts.quasi => {
                self.tag("quasiquote");
                list(vec![sym("quasiquote"), list(vec![self.lit(), list(vec![sym("unquote"), self.expr(Ty::Int, scope, d)]), self.lit()])])
            }
            _ => call("vector->list", vec![call("vector", vec![self.expr(Ty::Int, scope, d), self.expr(Ty::Int, scope, d)])]),
        }
    }

    fn fn1_expr(&mut self, scope: &Scope, depth: usize) -> Cell {
        let d = depth - 1;
        let vars = self.vars_of(scope, Ty::Fn1);
        match self.rng.usize(8) {
            0 | 1 | 2 => {
                self.tag("lambda-value");
                let (lam, _) = self.lambda_expr(1, false, Ty::Int, scope, d);
                lam
            }
            3 if !vars.is_empty() => sym(&self.rng.pick(&vars).name.clone()),
            4 | 5 => {
                let makers: Vec<Proc> = self.procs_of(scope).into_iter().filter(|p| p.ret == Ty::Fn1).collect();
                if makers.is_empty() {
                    let (lam, _) = self.lambda_expr(1, false, Ty::Int, scope, d);
                    return lam;
                }
                let p = self.rng.pick(&makers).clone();
                self.tag("closure-from-maker");
                let args = self.args_for(&p, scope, d);
                call(&p.name, args)
            }
            6 => list(vec![sym("if"), self.expr(Ty::Bool, scope, d), self.expr(Ty::Fn1, scope, d), self.expr(Ty::Fn1, scope, d)]),
            _ => {
                // unary global procedure as a value
                let ps: Vec<Proc> = self.procs_of(scope).into_iter().filter(|p| p.ret == Ty::Int && ((p.fixed == 1 && !p.rest) || (p.rest && p.fixed <= 1))).collect();
                if ps.is_empty() {
                    let (lam, _) = self.lambda_expr(1, false, Ty::Int, scope, d);
                    lam
                } else {
                    self.tag("procedure-as-value");
                    sym(&self.rng.pick(&ps).name.clone())
                }
            }
        }
    }

    /// quasiquote template (as datum with unquotes) at nesting level `level`
    fn quasi_template(&mut self, scope: &Scope, depth: usize, level: usize) -> Cell {
        let d = depth.saturating_sub(1);
        match self.rng.usize(8) {
            0 => sym(*self.rng.pick(&["x", "y", "sym"])),
            1 => self.lit(),
            2 | 3 if level == 0 => {
                let ty = if self.rng.chance(1, 4) { Ty::List } else { Ty::Int };
                list(vec![sym("unquote"), self.expr(ty, scope, d)])
            }
            4 if depth > 1 => {
                let n = 1 + self.rng.usize(3);
                list((0..n).map(|_| self.quasi_template(scope, d, level)).collect())
            }
            5 if depth > 1 => {
                self.tag("quasiquote-vector");
                let n = self.rng.usize(3);
                Cell::Vector((0..n).map(|_| self.quasi_template(scope, d, level)).collect())
            }
            6 if depth > 1 && level == 0 => {
                self.tag("nested-quasiquote");
                // `(… ,(… ,,e)) : inner level 1, an unquote at level 1 stays data, a double unquote evaluates
                let inner = list(vec![sym("unquote"), list(vec![sym("list"), list(vec![sym("unquote"), self.expr(Ty::Int, scope, d)])])]);
                list(vec![sym("quasiquote"), list(vec![sym("n"), inner])])
            }
            _ => Cell::Bool(self.rng.bool()),
        }
    }

    // ---------------- statements ----------------

    pub fn stmt(&mut self, scope: &Scope, depth: usize) -> Option<Cell> {
        let d = depth;
        match self.rng.usize(8) {
            0 | 1 => {
                let vars: Vec<Var> = self.assignable(scope);
                if vars.is_empty() {
                    return None;
                }
                let v = self.rng.pick(&vars).clone();
                self.tag("set!");
                Some(list(vec![sym("set!"), sym(&v.name), self.expr(Ty::Int, scope, d)]))
            }
            2 | 3 if self.opts.output => {
                self.tag("output");
                let w = *self.rng.pick(&["display", "write"]);
                let ty = *self.rng.pick(&[Ty::Int, Ty::Int, Ty::List, Ty::Bool]);
                Some(call(w, vec![self.expr(ty, scope, d)]))
            }
            4 if self.opts.output => {
                self.tag("for-each");
                self.tag("output");
                Some(call("for-each", vec![list(vec![sym("lambda"), list(vec![sym("fe")]), call("display", vec![call("+", vec![sym("fe"), self.expr(Ty::Int, scope, d)])])]), self.expr(Ty::List, scope, d)]))
            }
            5 => {
                self.tag("when-unless");
                let w = *self.rng.pick(&["when", "unless"]);
                let inner = self.stmt(scope, d)?;
                Some(list(vec![sym(w), self.expr(Ty::Bool, scope, d), inner]))
            }
            6 => {
                self.tag("one-armed-if");
                let inner = self.stmt(scope, d)?;
                Some(list(vec![sym("if"), self.expr(Ty::Bool, scope, d), inner]))
            }
            _ => None,
        }
    }

    // ---------------- top-level forms ----------------

    pub fn define_data(&mut self) -> Cell {
        let name = self.fresh("g");
        let ty = if self.rng.chance(1, 4) { Ty::List } else { Ty::Int };
        let scope = Scope::default();
        let depth = 1 + self.rng.usize(self.opts.max_depth.min(3));
        self.size = 0;
        let init = self.expr(ty, &scope, depth);
        self.globals.vars.push(Var { name: name.clone(), ty, mutable: true });
        call("define", vec![sym(&name), init])
    }

    /// (define (f params… [. rest]) body) — or a redefinition of an existing procedure with the same signature
    pub fn define_proc(&mut self, redefine: Option<Proc>) -> Cell {
        let p = match redefine {
            Some(p) => {
                self.tag("redefined-global-procedure");
                p
            }
            None => {
                let ret = if self.rng.chance(1, 5) { Ty::Fn1 } else { Ty::Int };
                Proc { name: self.fresh("f"), fixed: self.rng.usize(4), rest: self.rng.chance(1, 3), ret }
            }
        };
        let scope = Scope::default();
        let depth = 1 + self.rng.usize(self.opts.max_depth);
        self.size = 0;
        // the body may call procedures defined so far (including, for a redefinition, itself is excluded)
        let saved: Vec<Proc> = self.globals.procs.clone();
        // a redefinition may only call procedures defined before the original definition, so that
        // redefinitions can never close a cycle of mutual recursion
        if let Some(pos) = self.globals.procs.iter().position(|q| q.name == p.name) {
            self.globals.procs.truncate(pos);
        }
        let (lam, _) = self.lambda_expr(p.fixed, p.rest, p.ret, &scope, depth);
        self.globals.procs = saved;
        if !self.globals.procs.iter().any(|q| q.name == p.name) {
            self.globals.procs.push(p.clone());
        }
        if p.rest {
            self.tag("variadic-define");
        }
        // render as (define (name . formals) body…) or (define name (lambda …))
        if self.rng.bool() {
            let items: Vec<Cell> = lam.iter().cloned().collect();
            let formals = items[1].clone();
            let mut v = vec![sym("define"), Cell::new_pair(sym(&p.name), formals)];
            v.extend(items[2..].iter().cloned());
            list(v)
        } else {
            call("define", vec![sym(&p.name), lam])
        }
    }

    pub fn set_global(&mut self) -> Option<Cell> {
        let vars: Vec<Var> = self.globals.vars.iter().filter(|v| v.ty == Ty::Int).cloned().collect();
        if vars.is_empty() {
            return None;
        }
        let v = self.rng.pick(&vars).clone();
        self.tag("set!-global");
        self.size = 0;
        let depth = 1 + self.rng.usize(3);
        Some(list(vec![sym("set!"), sym(&v.name), self.expr(Ty::Int, &Scope::default(), depth)]))
    }

    pub fn expr_form(&mut self) -> Cell {
        let scope = Scope::default();
        self.size = 0;
        let depth = 1 + self.rng.usize(self.opts.max_depth);
        match self.rng.usize(10) {
            0 => self.expr(Ty::List, &scope, depth),
            1 => self.expr(Ty::Bool, &scope, depth),
            2 if self.opts.quasi => {
                self.tag("quasiquote");
                let t = self.quasi_template(&scope, depth, 0);
                list(vec![sym("quasiquote"), list(vec![sym("res"), t])])
            }
            3 => {
                self.tag("vector");
                call("vector", vec![self.expr(Ty::Int, &scope, depth), self.expr(Ty::List, &scope, depth.min(2))])
            }
            4 => match self.stmt(&scope, depth) {
                Some(s) => s,
                None => self.expr(Ty::Int, &scope, depth),
            },
            _ => self.expr(Ty::Int, &scope, depth),
        }
    }

    /// a failing expression of the given kind, usable where an Int is expected
    pub fn failing(&mut self, kind: usize) -> (Cell, &'static str) {
        match kind % 6 {
            0 => (sym(&self.fresh("unbound")), "unbound-variable"),
            1 => (call("car", vec![int(5)]), "wrong-type"),
            2 => {
                let ps: Vec<Proc> = self.globals.procs.iter().filter(|p| !p.rest).cloned().collect();
                if ps.is_empty() {
                    (list(vec![list(vec![sym("lambda"), list(vec![sym("z")]), sym("z")])]), "wrong-arity")
                } else {
                    let p = self.rng.pick(&ps).clone();
                    (call(&p.name, (0..p.fixed + 1).map(|i| int(i as i64)).collect()), "wrong-arity")
                }
            }
            3 => (call("error", vec![quote(sym("boom")), self.lit(), Cell::String("msg".into())]), "user-error"),
            4 => (list(vec![int(5), int(3)]), "not-a-procedure"),
            _ => (call("vector-ref", vec![call("vector", vec![int(1)]), int(9)]), "index-out-of-range"),
        }
    }
}

trait Pipe: Sized {
    fn pipe<R>(self, f: impl FnOnce(Self) -> R) -> R {
        f(self)
    }
}
impl Pipe for Cell {}

/// Replace the `n`-th (pre-order) replaceable Int-typed hole of `form` with `with`. Holes are the
/// integer literals: they always sit in an Int position, so the program stays well-formed.
pub fn replace_nth_literal(form: &Cell, n: &mut i64, with: &Cell, in_quote: bool) -> Cell {
    match form {
        Cell::Number(_) if !in_quote => {
            if *n == 0 {
                *n = -1;
                return with.clone();
            }
            if *n > 0 {
                *n -= 1;
            }
            form.clone()
        }
        Cell::Pair(h, t) => {
            let quoted = in_quote || matches!(h.as_ref(), Cell::Symbol(s) if s == "quote" || s == "quasiquote" || s == "case");
            // formals lists of lambda / define are not expression positions, but they contain no literals
            let nh = replace_nth_literal(h, n, with, in_quote);
            let nt = replace_nth_literal(t, n, with, quoted);
            Cell::Pair(Box::new(nh), Box::new(nt))
        }
        _ => form.clone(),
    }
}

pub fn count_literals(form: &Cell, in_quote: bool) -> i64 {
    match form {
        Cell::Number(_) if !in_quote => 1,
        Cell::Pair(h, t) => {
            let quoted = in_quote || matches!(h.as_ref(), Cell::Symbol(s) if s == "quote" || s == "quasiquote" || s == "case");
            count_literals(h, in_quote) + count_literals(t, quoted)
        }
        _ => 0,
    }
}

/// A generated session: top-level forms plus the tags of the features they combine.
pub struct Session {
    pub forms: Vec<Cell>,
    pub tags: Vec<String>,
}

pub fn session(rng: &mut Rng, opts: Opts, with_failures: bool) -> Session {
    let mut g = Gen::new(rng, opts);
    let mut forms = vec![];
    // a few definitions first
    let ndefs = 1 + g.rng.usize(3);
    for _ in 0..ndefs {
        if g.rng.chance(2, 3) {
            forms.push(g.define_proc(None));
        } else {
            forms.push(g.define_data());
        }
    }
    let n = 2 + g.rng.usize(8);
    for _ in 0..n {
        let f = match g.rng.usize(12) {
            0 | 1 => g.define_proc(None),
            2 => g.define_data(),
            3 => {
                let ps = g.globals.procs.clone();
                if ps.is_empty() {
                    g.expr_form()
                } else {
                    let p = g.rng.pick(&ps).clone();
                    g.define_proc(Some(p))
                }
            }
            4 => g.set_global().unwrap_or_else(|| g.expr_form()),
            _ => g.expr_form(),
        };
        forms.push(f);
    }
    // (failures are injected before the wrapper forms below are inserted: a wrapper stays installed in a
    // long-lived VM, and a call of a session-local procedure inside it would recurse through later sessions)
    if with_failures {
        // inject one failing expression into one of the later forms
        let idx = g.rng.usize(forms.len());
        let total = count_literals(&forms[idx], false);
        if total > 0 {
            let kind = g.rng.usize(6);
            let (bad, name) = g.failing(kind);
            let mut k = g.rng.below(total as u64) as i64;
            forms[idx] = replace_nth_literal(&forms[idx], &mut k, &bad, false);
            g.tag(&format!("failure:{}", name));
        }
        // and keep evaluating afterwards
        forms.push(g.expr_form());
    }
    // Late binding of globals: one session in five rebinds a built-in, after some code that calls it was
    // compiled, to a wrapper that counts its calls; the count is reported by the last form.
    let rebind = !g.opts.no_global_effects && g.rng.chance(1, 5);
    if rebind {
        let b = *g.rng.pick(&["abs", "max", "min", "quotient"]);
        let at = 1 + g.rng.usize(forms.len());
        let wrap = crate::engines::c05::parse_forms(&format!(
            // the previous binding is captured lexically, so that wrapping twice in one VM (long-lived VM lanes
            // run many sessions in a row) nests wrappers instead of making one call itself
            "(define wrapcnt 0) (define {b} (let ((old {b})) (lambda a (set! wrapcnt (+ wrapcnt 1)) (apply old a))))",
            b = b
        ));
        for (k, w) in wrap.into_iter().enumerate() {
            forms.insert((at + k).min(forms.len()), w);
        }
        g.tag("built-in-rebound-after-use");
    }
    if rebind {
        forms.push(sym("wrapcnt"));
    }
    // one session in eight: a parameterless procedure with an internal definition, activated several
    // times, each activation's closure keeping its own state
    if g.rng.chance(1, 8) {
        let u = g.rng.below(1000);
        let (a, b) = (g.rng.range(-3, 9), g.rng.range(1, 5));
        let at = g.rng.usize(forms.len() + 1);
        let snippet = crate::engines::c05::parse_forms(&format!(
            "(define (mkc{u}) (define n {a}) (lambda () (set! n (+ n {b})) n)) (define ca{u} (mkc{u})) (define cb{u} (mkc{u})) (list (ca{u}) (ca{u}) (cb{u}) (ca{u}) (cb{u}))",
            u = u,
            a = a,
            b = b
        ));
        for (k, w) in snippet.into_iter().enumerate() {
            forms.insert((at + k).min(forms.len()), w);
        }
        g.tag("parameterless-procedure-with-internal-state");
    }
    let tags = g.tags.iter().cloned().collect();
    Session { forms, tags }
}
