//! Thin helpers around the marwood public API: panic recorder, catch_unwind wrappers.
use std::cell::RefCell;
use std::panic::{self, AssertUnwindSafe};

thread_local! {
    static LAST_PANIC: RefCell<Option<(String, String)>> = RefCell::new(None);
}

/// Install a panic hook that records (message, file:line) instead of printing.
pub fn install_panic_recorder() {
    panic::set_hook(Box::new(|info| {
        let msg = if let Some(s) = info.payload().downcast_ref::<&str>() {
            s.to_string()
        } else if let Some(s) = info.payload().downcast_ref::<String>() {
            s.clone()
        } else {
            "<non-string panic>".to_string()
        };
        let loc = info.location().map(|l| format!("{}:{}", l.file(), l.line())).unwrap_or_default();
        LAST_PANIC.with(|p| *p.borrow_mut() = Some((msg, loc)));
    }));
}

#[derive(Clone, Debug)]
pub struct PanicInfo {
    pub message: String,
    pub location: String,
}

impl PanicInfo {
    /// location with the path made relative to the repository and the line number stripped
    pub fn file(&self) -> String {
        let l = self.location.rsplit_once(':').map(|x| x.0).unwrap_or(&self.location);
        match l.find("marwood/src/") {
            Some(i) => l[i..].to_string(),
            None => match l.rfind("/src/") {
                Some(i) => {
                    // crate dir name + src path
                    let head = &l[..i];
                    let krate = head.rsplit('/').next().unwrap_or("");
                    format!("{}{}", krate, &l[i..])
                }
                None => l.to_string(),
            },
        }
    }
    /// message normalised for signatures: digits collapsed
    pub fn norm_message(&self) -> String {
        let mut out = String::new();
        let mut last_digit = false;
        for c in self.message.chars().take(120) {
            if c.is_ascii_digit() {
                if !last_digit {
                    out.push('N');
                }
                last_digit = true;
            } else {
                last_digit = false;
                out.push(c);
            }
        }
        out
    }
}

/// Run `f`, converting a panic into Err(PanicInfo).
pub fn catch<R>(f: impl FnOnce() -> R) -> Result<R, PanicInfo> {
    LAST_PANIC.with(|p| *p.borrow_mut() = None);
    match panic::catch_unwind(AssertUnwindSafe(f)) {
        Ok(r) => Ok(r),
        Err(_) => {
            let (message, location) = LAST_PANIC.with(|p| p.borrow_mut().take()).unwrap_or_default();
            Err(PanicInfo { message, location })
        }
    }
}
