//! Reference `syntax-rules` (R7RS 4.3.2): the textbook non-hygienic matcher and instantiator, with
//! multi-level ellipsis bindings as trees, plus a validity checker for definitions.
use marwood::cell::Cell;
use std::collections::BTreeMap;

#[derive(Clone, Debug)]
pub struct Rule {
    pub pattern: Cell,
    pub template: Cell,
}

#[derive(Clone, Debug)]
pub struct Transformer {
    pub ellipsis: String,
    pub literals: Vec<String>,
    pub rules: Vec<Rule>,
}

#[derive(Clone, Debug, PartialEq)]
pub enum Tree {
    Leaf(Cell),
    Seq(Vec<Tree>),
}

pub type Bindings = BTreeMap<String, Tree>;

#[derive(Debug, Clone, PartialEq)]
pub enum Expansion {
    /// rule index and the instantiated template
    Expanded(usize, Cell),
    NoMatch,
    /// the definition is not valid R7RS (any error from the implementation is correct)
    InvalidDefinition(String),
    /// ellipsis variables of one template ellipsis matched different numbers of items
    LengthMismatch,
}

fn sym(c: &Cell) -> Option<&str> {
    match c {
        Cell::Symbol(s) => Some(s.as_str()),
        _ => None,
    }
}

fn items(c: &Cell) -> (Vec<&Cell>, &Cell) {
    let mut v = vec![];
    let mut cur = c;
    while let Cell::Pair(a, b) = cur {
        v.push(a.as_ref());
        cur = b;
    }
    (v, cur)
}

impl Transformer {
    fn is_ellipsis(&self, c: &Cell) -> bool {
        sym(c) == Some(self.ellipsis.as_str())
    }
    fn is_literal(&self, c: &Cell) -> bool {
        sym(c).map(|s| self.literals.iter().any(|l| l == s)).unwrap_or(false)
    }

    // ---------- validity ----------

    /// pattern variables with their ellipsis depth; Err on an invalid pattern
    pub fn pattern_vars(&self, p: &Cell, depth: usize, out: &mut BTreeMap<String, usize>) -> Result<(), String> {
        match p {
            Cell::Symbol(s) => {
                if self.is_ellipsis(p) {
                    return Err("ellipsis in a position where a pattern is required".into());
                }
                if s == "_" || self.is_literal(p) {
                    return Ok(());
                }
                if out.insert(s.clone(), depth).is_some() {
                    return Err(format!("duplicate pattern variable {}", s));
                }
                Ok(())
            }
            Cell::Pair(_, _) => {
                let (its, tail) = items(p);
                self.seq_vars(&its, depth, out)?;
                if !tail.is_nil() {
                    if self.is_ellipsis(tail) {
                        return Err("ellipsis as the tail of a dotted pattern".into());
                    }
                    self.pattern_vars(tail, depth, out)?;
                }
                Ok(())
            }
            Cell::Vector(v) => {
                let its: Vec<&Cell> = v.iter().collect();
                self.seq_vars(&its, depth, out)
            }
            _ => Ok(()),
        }
    }

    fn seq_vars(&self, its: &[&Cell], depth: usize, out: &mut BTreeMap<String, usize>) -> Result<(), String> {
        let mut seen_ellipsis = false;
        let mut i = 0;
        while i < its.len() {
            if self.is_ellipsis(its[i]) {
                return Err("ellipsis not preceded by a pattern".into());
            }
            let followed = i + 1 < its.len() && self.is_ellipsis(its[i + 1]);
            if followed {
                if seen_ellipsis {
                    return Err("more than one ellipsis in one sequence pattern".into());
                }
                seen_ellipsis = true;
                self.pattern_vars(its[i], depth + 1, out)?;
                i += 2;
            } else {
                self.pattern_vars(its[i], depth, out)?;
                i += 1;
            }
        }
        Ok(())
    }

    /// template validity against the pattern's variable depths
    pub fn check_template(&self, t: &Cell, vars: &BTreeMap<String, usize>, depth: usize) -> Result<(), String> {
        match t {
            Cell::Symbol(s) => {
                if self.is_ellipsis(t) {
                    return Err("ellipsis in a position where a template is required".into());
                }
                if let Some(d) = vars.get(s) {
                    if *d > depth {
                        return Err(format!("pattern variable {} of ellipsis depth {} used at depth {}", s, d, depth));
                    }
                }
                Ok(())
            }
            Cell::Pair(_, _) => {
                let (its, tail) = items(t);
                // (<ellipsis> <template>) escape form is not generated; treat a leading ellipsis as invalid
                self.check_seq(&its, vars, depth)?;
                if !tail.is_nil() {
                    if self.is_ellipsis(tail) {
                        return Err("ellipsis as the tail of a dotted template".into());
                    }
                    self.check_template(tail, vars, depth)?;
                }
                Ok(())
            }
            Cell::Vector(v) => {
                let its: Vec<&Cell> = v.iter().collect();
                self.check_seq(&its, vars, depth)
            }
            _ => Ok(()),
        }
    }

    fn check_seq(&self, its: &[&Cell], vars: &BTreeMap<String, usize>, depth: usize) -> Result<(), String> {
        let mut i = 0;
        while i < its.len() {
            if self.is_ellipsis(its[i]) {
                return Err("ellipsis not preceded by a template".into());
            }
            let mut k = 0;
            while i + 1 + k < its.len() && self.is_ellipsis(its[i + 1 + k]) {
                k += 1;
            }
            if k > 0 {
                // the subtemplate must contain a variable deep enough to drive each ellipsis
                let maxd = self.max_var_depth(its[i], vars);
                if maxd < depth + k {
                    return Err(format!("subtemplate followed by {} ellipsis has no pattern variable of depth >= {}", k, depth + k));
                }
                self.check_template(its[i], vars, depth + k)?;
            } else {
                self.check_template(its[i], vars, depth)?;
            }
            i += 1 + k;
        }
        Ok(())
    }

    fn max_var_depth(&self, t: &Cell, vars: &BTreeMap<String, usize>) -> usize {
        match t {
            Cell::Symbol(s) => vars.get(s).cloned().unwrap_or(0),
            Cell::Pair(a, b) => self.max_var_depth(a, vars).max(self.max_var_depth(b, vars)),
            Cell::Vector(v) => v.iter().map(|x| self.max_var_depth(x, vars)).max().unwrap_or(0),
            _ => 0,
        }
    }

    pub fn validate(&self) -> Result<(), String> {
        self.validate_upto(self.rules.len())
    }

    /// pattern variables (with depth) of rule `ri`, or why its pattern is invalid
    pub fn rule_vars(&self, ri: usize) -> Result<BTreeMap<String, usize>, String> {
        let r = &self.rules[ri];
        let (its, tail) = items(&r.pattern);
        if its.is_empty() {
            return Err("pattern is not a list".into());
        }
        let mut vars = BTreeMap::new();
        let rest: Vec<&Cell> = its[1..].to_vec();
        self.seq_vars(&rest, 0, &mut vars)?;
        if !tail.is_nil() {
            self.pattern_vars(tail, 0, &mut vars)?;
        }
        Ok(vars)
    }

    /// validity of the first `n` rules only
    pub fn validate_upto(&self, n: usize) -> Result<(), String> {
        for r in self.rules.iter().take(n) {
            let (its, tail) = items(&r.pattern);
            if its.is_empty() {
                return Err("pattern is not a list".into());
            }
            let mut vars = BTreeMap::new();
            // the keyword position is ignored
            let rest: Vec<&Cell> = its[1..].to_vec();
            self.seq_vars(&rest, 0, &mut vars)?;
            if !tail.is_nil() {
                self.pattern_vars(tail, 0, &mut vars)?;
            }
            self.check_template(&r.template, &vars, 0)?;
        }
        Ok(())
    }

    // ---------- matching ----------

    fn match_pattern(&self, p: &Cell, f: &Cell, b: &mut Bindings) -> bool {
        match p {
            Cell::Symbol(s) => {
                if s == "_" {
                    return true;
                }
                if self.is_literal(p) {
                    return sym(f) == Some(s.as_str());
                }
                b.insert(s.clone(), Tree::Leaf(f.clone()));
                true
            }
            Cell::Pair(_, _) => {
                let (pits, ptail) = items(p);
                let (fits, ftail) = items(f);
                self.match_seq(&pits, ptail, &fits, ftail, b)
            }
            Cell::Nil => f.is_nil(),
            Cell::Vector(pv) => match f {
                Cell::Vector(fv) => {
                    let pits: Vec<&Cell> = pv.iter().collect();
                    let fits: Vec<&Cell> = fv.iter().collect();
                    self.match_seq(&pits, &Cell::Nil, &fits, &Cell::Nil, b)
                }
                _ => false,
            },
            // a pattern datum matches an input that is equal? to it (same type, value and exactness)
            other => crate::engines::c10::strict_eq(other, f),
        }
    }

    fn match_seq(&self, pits: &[&Cell], ptail: &Cell, fits: &[&Cell], ftail: &Cell, b: &mut Bindings) -> bool {
        let epos = (0..pits.len()).find(|i| i + 1 < pits.len() && self.is_ellipsis(pits[i + 1]));
        match epos {
            None => {
                if ptail.is_nil() {
                    if !ftail.is_nil() || fits.len() != pits.len() {
                        return false;
                    }
                    pits.iter().zip(fits.iter()).all(|(p, f)| self.match_pattern(p, f, b))
                } else {
                    if fits.len() < pits.len() {
                        return false;
                    }
                    for (p, f) in pits.iter().zip(fits.iter()) {
                        if !self.match_pattern(p, f, b) {
                            return false;
                        }
                    }
                    // the rest of the form (possibly improper) matches the tail pattern
                    let mut rest = ftail.clone();
                    for f in fits[pits.len()..].iter().rev() {
                        rest = Cell::new_pair((*f).clone(), rest);
                    }
                    self.match_pattern(ptail, &rest, b)
                }
            }
            Some(e) => {
                let before = &pits[..e];
                let pe = pits[e];
                let after = &pits[e + 2..];
                if fits.len() < before.len() + after.len() {
                    return false;
                }
                if ptail.is_nil() && !ftail.is_nil() {
                    return false;
                }
                for (p, f) in before.iter().zip(fits.iter()) {
                    if !self.match_pattern(p, f, b) {
                        return false;
                    }
                }
                let n_mid = fits.len() - before.len() - after.len();
                let mid = &fits[before.len()..before.len() + n_mid];
                let mut seqs: BTreeMap<String, Vec<Tree>> = BTreeMap::new();
                let mut names = BTreeMap::new();
                let _ = self.pattern_vars(pe, 0, &mut names);
                for n in names.keys() {
                    seqs.insert(n.clone(), vec![]);
                }
                for f in mid {
                    let mut inner = Bindings::new();
                    if !self.match_pattern(pe, f, &mut inner) {
                        return false;
                    }
                    for (k, v) in inner {
                        seqs.entry(k).or_default().push(v);
                    }
                }
                for (k, v) in seqs {
                    b.insert(k, Tree::Seq(v));
                }
                for (p, f) in after.iter().zip(fits[before.len() + n_mid..].iter()) {
                    if !self.match_pattern(p, f, b) {
                        return false;
                    }
                }
                if !ptail.is_nil() {
                    return self.match_pattern(ptail, ftail, b);
                }
                true
            }
        }
    }

    // ---------- instantiation ----------

    fn instantiate(&self, t: &Cell, b: &Bindings) -> Result<Cell, Expansion> {
        match t {
            Cell::Symbol(s) => match b.get(s) {
                Some(Tree::Leaf(c)) => Ok(c.clone()),
                Some(Tree::Seq(_)) => Err(Expansion::InvalidDefinition(format!("{} used without enough ellipses", s))),
                None => Ok(t.clone()),
            },
            Cell::Pair(_, _) => {
                let (its, tail) = items(t);
                let mut out = self.inst_seq(&its, b)?;
                let tl = if tail.is_nil() { Cell::Nil } else { self.instantiate(tail, b)? };
                let mut res = tl;
                while let Some(x) = out.pop() {
                    res = Cell::new_pair(x, res);
                }
                Ok(res)
            }
            Cell::Vector(v) => {
                let its: Vec<&Cell> = v.iter().collect();
                Ok(Cell::Vector(self.inst_seq(&its, b)?))
            }
            other => Ok(other.clone()),
        }
    }

    fn inst_seq(&self, its: &[&Cell], b: &Bindings) -> Result<Vec<Cell>, Expansion> {
        let mut out = vec![];
        let mut i = 0;
        while i < its.len() {
            let mut k = 0;
            while i + 1 + k < its.len() && self.is_ellipsis(its[i + 1 + k]) {
                k += 1;
            }
            if k == 0 {
                out.push(self.instantiate(its[i], b)?);
            } else {
                let mut results = vec![];
                self.inst_ellipsis(its[i], b, k, &mut results)?;
                out.extend(results);
            }
            i += 1 + k;
        }
        Ok(out)
    }

    fn vars_in(&self, t: &Cell, b: &Bindings, out: &mut Vec<String>) {
        match t {
            Cell::Symbol(s) => {
                if b.contains_key(s) && !out.contains(s) {
                    out.push(s.clone());
                }
            }
            Cell::Pair(a, d) => {
                self.vars_in(a, b, out);
                self.vars_in(d, b, out);
            }
            Cell::Vector(v) => {
                for x in v {
                    self.vars_in(x, b, out);
                }
            }
            _ => {}
        }
    }

    /// instantiate `t` followed by k ellipses, appending the (flattened) results
    fn inst_ellipsis(&self, t: &Cell, b: &Bindings, k: usize, out: &mut Vec<Cell>) -> Result<(), Expansion> {
        let mut vs = vec![];
        self.vars_in(t, b, &mut vs);
        let seq_vars: Vec<&String> = vs.iter().filter(|v| matches!(b.get(*v), Some(Tree::Seq(_)))).collect();
        if seq_vars.is_empty() {
            return Err(Expansion::InvalidDefinition("ellipsis follows a subtemplate without ellipsis variables".into()));
        }
        let lens: Vec<usize> = seq_vars
            .iter()
            .map(|v| match b.get(*v) {
                Some(Tree::Seq(s)) => s.len(),
                _ => 0,
            })
            .collect();
        if lens.iter().any(|l| *l != lens[0]) {
            return Err(Expansion::LengthMismatch);
        }
        for idx in 0..lens[0] {
            let mut inner = b.clone();
            for v in &seq_vars {
                if let Some(Tree::Seq(s)) = b.get(*v) {
                    inner.insert((*v).clone(), s[idx].clone());
                }
            }
            if k == 1 {
                out.push(self.instantiate(t, &inner)?);
            } else {
                self.inst_ellipsis(t, &inner, k - 1, out)?;
            }
        }
        Ok(())
    }

    pub fn expand(&self, form: &Cell) -> Expansion {
        for (ri, r) in self.rules.iter().enumerate() {
            // a rule is only meaningful if it and every rule tried before it are valid; rules
            // after the first match are irrelevant to this use
            // a rule that is tried needs a valid pattern; only the rule that matches needs a valid template
            let vars = match self.rule_vars(ri) {
                Ok(v) => v,
                Err(e) => return Expansion::InvalidDefinition(format!("rule {}: {}", ri, e)),
            };
            let (pits, ptail) = items(&r.pattern);
            let (fits, ftail) = items(form);
            if fits.is_empty() {
                return Expansion::NoMatch;
            }
            let mut b = Bindings::new();
            if self.match_seq(&pits[1..], ptail, &fits[1..], ftail, &mut b) {
                if let Err(e) = self.check_template(&r.template, &vars, 0) {
                    return Expansion::InvalidDefinition(format!("rule {}: {}", ri, e));
                }
                return match self.instantiate(&r.template, &b) {
                    Ok(c) => Expansion::Expanded(ri, c),
                    Err(e) => e,
                };
            }
        }
        Expansion::NoMatch
    }
}
