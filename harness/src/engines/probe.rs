//! probe — evaluate forms given in --arg (or a file with @path) and print results; a debugging aid.
use crate::mw::catch;
use crate::report::Report;
use crate::Ctx;
use marwood::vm::Vm;

pub fn run(ctx: &Ctx, _rep: &mut Report) {
    let src = ctx.arg.clone().unwrap_or_default();
    let src = if let Some(p) = src.strip_prefix('@') { std::fs::read_to_string(p).unwrap() } else { src };
    let mut vm = Vm::new();
    let mut rest: &str = &src;
    loop {
        let r = catch(|| vm.eval_text(rest).map(|(c, r)| (format!("{:#}", c), r.map(|r| r.len()))));
        match r {
            Err(p) => {
                println!("PANIC {} at {}", p.message, p.location);
                break;
            }
            Ok(Err(e)) => {
                println!("ERR {:?} :: {}", e, e);
                // skip this datum
                match marwood::parse::parse_text(rest) {
                    Ok((_, Some(r))) => rest = r,
                    _ => break,
                }
            }
            Ok(Ok((s, r))) => {
                println!("=> {}", s);
                match r {
                    Some(n) => rest = &rest[rest.len() - n..],
                    None => break,
                }
            }
        }
    }
}
