//! C03 — garbage collection is unobservable and never reclaims a live object.
//!
//! Each program is run once without forced collections (baseline) and then under several
//! collection schedules (every k-th instruction, pseudo-random boundaries), each in a fresh VM.
//! Monitors: (a) outcome/output identical to the baseline; (b) the independent heap auditor
//! runs around every forced collection (pre-snapshot, post-assertions).
use crate::diff::{run_form, show_outcome, MwForm, MwOutcome, MwVm};
use crate::engines::{c01, c02, c05};
use crate::gen;
use crate::heapaudit::{self, Finding, Snapshot};
use crate::json::Json;
use crate::report::Report;
use crate::rng::{hash_str, Rng};
use crate::Ctx;
use marwood::cell::Cell;
use marwood::vm::verif::GcPhase;
use std::cell::RefCell;
use std::collections::BTreeSet;
use std::rc::Rc;

#[derive(Clone, Debug)]
pub enum Schedule {
    EveryK(u64),
    Random { seed: u64, one_in: u64 },
    /// no scheduled collections: only the observer (auditor) is installed
    Never,
}

impl Schedule {
    pub fn name(&self) -> String {
        match self {
            Schedule::EveryK(k) => format!("every-{}", k),
            Schedule::Random { one_in, .. } => format!("random-1-in-{}", one_in),
            Schedule::Never => "none".into(),
        }
    }
}

#[derive(Default)]
pub struct AuditLog {
    pub collections: u64,
    pub freed_something: u64,
    pub with_continuation: u64,
    pub with_closure_env: u64,
    pub with_args_pending: u64,
    pub opcodes: BTreeSet<String>,
    pub max_live: usize,
    pub findings: Vec<Finding>,
    pub exactness: Vec<(usize, &'static str)>,
    pub pre: Option<Snapshot>,
    pub check_exactness: bool,
}

pub fn install(m: &mut MwVm, sched: &Schedule, log: Rc<RefCell<AuditLog>>, max_collections: u64) {
    let s = sched.clone();
    let mut rng = match &s {
        Schedule::Random { seed, .. } => Rng::new(*seed),
        _ => Rng::new(0),
    };
    let log2 = log.clone();
    let sched_fn = move |_vm: &marwood::vm::Vm, instr: u64| -> bool {
        if log2.borrow().collections >= max_collections {
            return false;
        }
        match &s {
            Schedule::EveryK(k) => instr % k == 0,
            Schedule::Random { one_in, .. } => rng.below(*one_in) == 0,
            Schedule::Never => false,
        }
    };
    m.vm.verif_set_gc_schedule(Some(Box::new(sched_fn)));
    let log3 = log;
    let observer = move |vm: &marwood::vm::Vm, phase: GcPhase| {
        let mut l = log3.borrow_mut();
        match phase {
            GcPhase::Before => {
                let snap = heapaudit::snapshot(vm);
                l.opcodes.insert(snap.next_opcode.clone());
                if snap.has_continuation {
                    l.with_continuation += 1;
                }
                if snap.has_lexical_env {
                    l.with_closure_env += 1;
                }
                if matches!(snap.next_opcode.as_str(), "PushAcc" | "PushImmediate" | "Push" | "CallAcc" | "TCallAcc" | "VarArg" | "Cons") {
                    l.with_args_pending += 1;
                }
                l.max_live = l.max_live.max(snap.n_reachable);
                l.pre = Some(snap);
            }
            GcPhase::After => {
                l.collections += 1;
                if let Some(pre) = l.pre.take() {
                    let used_after = vm.verif_stats().heap_used;
                    if used_after < pre.n_allocated {
                        l.freed_something += 1;
                    }
                    if l.findings.len() < 4 {
                        let f = heapaudit::audit_after(vm, &pre);
                        for x in &f {
                            crate::report::emergency(&format!("auditor:{}", x.kind), &x.detail);
                        }
                        l.findings.extend(f);
                    }
                    if l.check_exactness && l.exactness.is_empty() {
                        l.exactness = heapaudit::exactness(vm);
                    }
                }
            }
        }
    };
    m.vm.verif_set_gc_observer(Some(Box::new(observer)));
}

pub fn run_plain(forms: &[Cell]) -> (Vec<MwForm>, u64) {
    let mut m = MwVm::new();
    m.vm.verif_reset_counters();
    let r: Vec<MwForm> = forms.iter().map(|f| run_form(&mut m, f)).collect();
    let t = m.vm.verif_stats().instr_count;
    (r, t)
}

pub fn run_scheduled(forms: &[Cell], sched: &Schedule, max_collections: u64, check_exactness: bool) -> (Vec<MwForm>, AuditLog) {
    let mut m = MwVm::new();
    let log = Rc::new(RefCell::new(AuditLog { check_exactness, ..AuditLog::default() }));
    install(&mut m, sched, log.clone(), max_collections);
    let mut out = vec![];
    for f in forms {
        let r = run_form(&mut m, f);
        let stop = matches!(r.outcome, MwOutcome::Budget | MwOutcome::Panic(_));
        out.push(r);
        if stop {
            break;
        }
        // a collection between evaluations as well
        if log.borrow().collections < max_collections {
            m.vm.verif_force_gc();
        }
    }
    m.vm.verif_set_gc_schedule(None);
    m.vm.verif_set_gc_observer(None);
    let l = std::mem::take(&mut *log.borrow_mut());
    (out, l)
}

fn same(a: &MwForm, b: &MwForm) -> bool {
    let out_same = a.output.len() == b.output.len() && a.output.iter().zip(b.output.iter()).all(|(x, y)| x.0 == y.0 && x.1 == y.1);
    let o = match (&a.outcome, &b.outcome) {
        (MwOutcome::Value(x), MwOutcome::Value(y)) => x == y,
        (MwOutcome::Failure(c1, p1, _), MwOutcome::Failure(c2, p2, _)) => c1 == c2 && p1 == p2,
        _ => false,
    };
    out_same && o
}

pub const TEMPLATES: [(&str, &str); 17] = [
    ("big-procedure-many-jumps", "(define (big x) (cond ((= x 0) (if (> x 1) 1 (if (> x 2) 2 (if (> x 3) 3 (if (> x 4) 4 (if (> x 5) 5 (if (> x 6) 6 (if (> x 7) 7 (if (> x 8) 8 (if (> x 9) 9 (if (> x 10) 10 (if (> x 11) 11 (if (> x 12) 12 (if (> x 13) 13 (if (> x 14) 14 (if (> x 15) 15 (if (> x 16) 16 (if (> x 17) 17 (if (> x 18) 18 (if (> x 19) 19 (if (> x 20) 20 (if (> x 21) 21 (if (> x 22) 22 (if (> x 23) 23 (if (> x 24) 24 (if (> x 25) 25 (if (> x 26) 26 (if (> x 27) 27 (if (> x 28) 28 (if (> x 29) 29 (if (> x 30) 30 (if (> x 31) 31 (if (> x 32) 32 (if (> x 33) 33 (if (> x 34) 34 (if (> x 35) 35 (if (> x 36) 36 (if (> x 37) 37 (if (> x 38) 38 (if (> x 39) 39 (if (> x 40) 40 (if (> x 41) 41 (if (> x 42) 42 (if (> x 43) 43 (if (> x 44) 44 (if (> x 45) 45 (if (> x 46) 46 (if (> x 47) 47 (if (> x 48) 48 (if (> x 49) 49 50)))))))))))))))))))))))))))))))))))))))))))))))))) ((= x 1) (list x x)) (else (vector x)))) (define keep (let loop ((i 0) (acc '())) (if (< i {S}) (loop (+ i 1) (cons (big (remainder i 3)) acc)) acc))) (length keep) (big 0) (let loop ((i 0)) (if (< i {N}) (begin (list i (big 2)) (loop (+ i 1))))) (car keep)"),
    ("list-builder", "(define (build n) (if (= n 0) '() (cons n (build (- n 1))))) (define l (build {N})) (length l) (apply + l) (define l2 (map (lambda (x) (* x x)) l)) (list (car l2) (length (append l l2)))"),
    ("vector-builder", "(define v (make-vector {S} 'x)) (vector-set! v 0 (list 1 2 3)) (define w (vector (list 'a 'b) (vector 1 (list 2)) \"str\")) (vector-fill! v (cons 1 2)) (list (vector-ref v 1) w (vector->list (vector 1 2 3)))"),
    ("quasi-aggregates", "(define x {S}) (define q1 `(a ,x #(b ,(list x x)) (c . ,x))) (define q2 `#(,(list 1 2) ,(vector 3 (list 4)) ,(cons x x))) (define (mk y) `#(,y ,(list y))) (list q1 q2 (mk 1) (mk 2))"),
    ("string-builder", "(define (rep n s) (if (= n 0) \"\" (string-append s (rep (- n 1) s)))) (define s (rep {S} \"ab\")) (string-length s) (define t (make-string 5 #\\z)) (string-set! t 1 #\\λ) (list t (string->list \"héllo\") (list->string (list #\\a #\\b)))"),
    ("closure-factory", "(define (mk n) (let ((c 0)) (lambda () (set! c (+ c n)) c))) (define cs (map mk '(1 2 3 4 5 6 7 8))) (map (lambda (c) (c)) cs) (map (lambda (c) (c)) (reverse cs)) (define (compose f g) (lambda (x) (f (g x)))) ((compose (lambda (x) (* x 2)) (lambda (x) (+ x {S}))) 5)"),
    ("continuation-store", "(define ks '()) (define (note) (call/cc (lambda (k) (set! ks (cons k ks)) (length ks)))) (list (note) (note) (note)) (define r 0) (define k1 #f) (set! r (+ 1 (call/cc (lambda (k) (set! k1 k) 1)))) (if (< r {S}) (k1 r) 'done) r (length ks)"),
    ("eval-loop", "(define acc '()) (let loop ((i 0)) (if (< i {S}) (begin (set! acc (cons (eval (list '+ i 1)) acc)) (loop (+ i 1))))) acc (eval '(let ((z 3)) (* z z))) (eval '(define ev1 (lambda (q) (list q q)))) (ev1 'w)"),
    ("quasiquote-dotted-tail-constants", "(define (qd x) `((,x 2) ,x . #(7 8 9))) (define (qs x) `(,x . \"second\")) (define (qy x) `(a ,x . only-here-symbol)) (define (qn x) `(b (,x . \"inner\") . #(1))) (define junk (let loop ((i 0) (acc '())) (if (< i {S}) (loop (+ i 1) (cons (vector i) acc)) acc))) (length junk) (qd 1) (qs 2) (qy 3) (qn 4) (set! junk #f) (qd 5) (qs 6) (qy 7) (qn 8) (eq? (cdr (cdr (qy 1))) 'only-here-symbol)"),
    ("escaped-symbol-churn", "(define (sym i) (string->symbol (string-append \"s p(\" (number->string i)))) (define (tmp i) (string->symbol (string-append \"gone \" (number->string (remainder i 7))))) (define syms (let loop ((i 0) (acc '())) (if (< i {S}) (begin (tmp i) (loop (+ i 1) (cons (sym i) acc))) acc))) (length syms) (eq? (sym 3) (sym 3)) (eq? (car syms) (sym (- {S} 1))) (symbol? (tmp 3)) (eq? (tmp 4) (tmp 4)) (symbol->string (tmp 5)) (symbol->string (car syms))"),
    ("symbol-churn", "(define (sym i) (string->symbol (string-append \"s\" (number->string i)))) (define syms (let loop ((i 0) (acc '())) (if (< i {S}) (loop (+ i 1) (cons (sym i) acc)) acc))) (length syms) (eq? (sym 3) (sym 3)) (eq? (car syms) (sym (- {S} 1))) (memq (sym 0) syms) (symbol->string (car syms))"),
    ("define-aggregates", "(define a1 (list 1 (list 2 3) #(4 5))) (define a2 (vector (list 1) \"s\" #\\c 'sym)) (define a3 (cons (cons 1 2) (cons 3 4))) (define a4 (lambda args args)) (define a5 (let ((h (list 9 9))) (lambda () h))) (define a6 \"string value\") (list a1 a2 a3 (a4 1 2) (a5) a6) (set-car! a1 (list 'new)) (vector-set! a2 0 (vector 'deep (list 'er))) (list a1 a2)"),
    ("deep-nontail", "(define (sum n) (if (= n 0) 0 (+ n (sum (- n 1))))) (sum {N}) (define (mklist n) (if (= n 0) '() (cons (list n) (mklist (- n 1))))) (length (mklist {N}))"),
    ("assoc-and-apply", "(define al (map (lambda (i) (cons i (list i i))) '(1 2 3 4 5 6))) (assv 3 al) (apply max (map car al)) (define (va a . r) (cons a r)) (apply va 1 2 '(3 4 5)) (va 1) (let* ((p (va 1 2)) (q (append p p))) (list p q))"),
    ("delay-force", "(define ps (map (lambda (i) (delay (list i (* i i)))) '(1 2 3 4))) (map force ps) (map force ps) (define cnt 0) (define p (delay (begin (set! cnt (+ cnt 1)) (vector cnt)))) (list (force p) (force p) cnt)"),
    ("generator", "(define (make-gen lst) (define return #f) (define resume #f) (define (start) (for-each (lambda (x) (call/cc (lambda (next) (set! resume next) (return x)))) lst) (return 'eof)) (lambda () (call/cc (lambda (r) (set! return r) (if resume (resume #f) (start)))))) (define g (make-gen (list (list 1) (vector 2) \"three\" 4))) (g) (g) (g) (list (g) (g))"),
    ("mixed-churn", "(define keep '()) (let loop ((i 0)) (if (< i {S}) (begin (if (= 0 (remainder i 3)) (set! keep (cons (vector i (list i) (number->string i)) keep))) (cons i (list i (lambda () i))) (loop (+ i 1))))) (length keep) (car keep) (vector-ref (car (reverse keep)) 2)"),
];

fn instantiate(t: &str, rng: &mut Rng) -> String {
    let n = 20 + rng.usize(200);
    let s = 3 + rng.usize(30);
    t.replace("{N}", &n.to_string()).replace("{S}", &s.to_string())
}

fn program(rng: &mut Rng, index: u64) -> (Vec<Cell>, String) {
    match index % 6 {
        0 => {
            let s = c05::session(rng);
            (s.forms, format!("c05:{}", s.tags.join("+")))
        }
        1 => {
            let s = gen::session(rng, c01::opts_main(), index % 12 == 1);
            (s.forms, format!("c01:{}", s.tags.iter().take(5).cloned().collect::<Vec<_>>().join("+")))
        }
        2 => {
            // a C02 scope skeleton
            let valid: Vec<usize> = (0..64).collect();
            let depth = 2 + rng.usize(2);
            let mut kinds = vec![];
            while kinds.len() < depth {
                let code = *rng.pick(&valid);
                if let Some(k) = c02_kinds(code) {
                    kinds.push(k);
                }
            }
            let sk = c02::Skeleton { kinds, invoke: rng.usize(4), sets: rng.usize(4) };
            let mut forms = c05::parse_forms("(define (caddr x) (car (cdr (cdr x))))");
            forms.extend(c02::program(&sk));
            (forms, "c02-skeleton".into())
        }
        _ => {
            let (name, t) = *rng.pick(&TEMPLATES);
            (c05::parse_forms(&instantiate(t, rng)), format!("template:{}", name))
        }
    }
}

fn c02_kinds(code: usize) -> Option<[c02::Kind; 3]> {
    let mut k = [c02::Kind::Free; 3];
    let mut c = code;
    let mut rests = 0;
    for slot in k.iter_mut() {
        *slot = match c % 4 {
            0 => c02::Kind::Param,
            1 => {
                rests += 1;
                c02::Kind::Rest
            }
            2 => c02::Kind::IDef,
            _ => c02::Kind::Free,
        };
        c /= 4;
    }
    if rests > 1 {
        None
    } else {
        Some(k)
    }
}

pub fn schedules(rng: &mut Rng, quick: bool, t: u64) -> Vec<Schedule> {
    let mut v = vec![];
    let ks: Vec<u64> = if quick { vec![1, 2, 3, 5, 8, 13] } else { (1..=16).collect() };
    // keep the number of collections per run bounded: long programs get the sparser schedules
    let min_k = (t / 6000).max(1);
    for k in ks {
        if k >= min_k {
            v.push(Schedule::EveryK(k));
        }
    }
    if v.is_empty() {
        v.push(Schedule::EveryK(min_k));
        v.push(Schedule::EveryK(min_k + 1 + rng.below(7)));
    }
    let n_rand = if quick { 2 } else { 4 };
    for j in 0..n_rand {
        let one_in = if j % 2 == 0 { 3.max(min_k) } else { 50.max(min_k) };
        v.push(Schedule::Random { seed: rng.next_u64(), one_in });
    }
    v
}

pub fn check_program(forms: &[Cell], label: &str, rng: &mut Rng, quick: bool, rep: &mut Report, case: (u64, u64), verbose: bool) -> bool {
    rep.evaluations += 1;
    let (base, t) = run_plain(forms);
    if base.iter().any(|f| matches!(f.outcome, MwOutcome::Budget | MwOutcome::Panic(_))) {
        rep.inconclusive(&format!("baseline run of {} hit the watchdog or panicked", label));
        return false;
    }
    rep.count("baseline_instructions", t);
    let wit = |s: &Schedule| Json::obj().set("shrunk", gen::text_of(forms)).set("schedule", s.name()).set("label", label);
    let mut ok = true;
    for s in schedules(rng, quick, t) {
        let (r, log) = run_scheduled(forms, &s, 20_000, false);
        rep.count("scheduled_runs", 1);
        rep.count("collections_observed", log.collections);
        rep.count("collections_that_freed_cells", log.freed_something);
        rep.count("collections_with_live_continuation", log.with_continuation);
        rep.count("collections_with_live_closure_environment", log.with_closure_env);
        rep.count("collections_with_operands_pending", log.with_args_pending);
        rep.max("max_live_cells", log.max_live as u64);
        for o in &log.opcodes {
            rep.see("opcodes_at_collection_boundary", o);
        }
        rep.see("schedules", &s.name());
        if verbose {
            println!("{}: {} collections, {} freed something, findings {:?}", s.name(), log.collections, log.freed_something, log.findings);
        }
        if let Some(f) = log.findings.first() {
            rep.violation(&format!("auditor:{}", f.kind), format!("{} under schedule {} in {} :: {}", f.kind, s.name(), label, f.detail), wit(&s), case);
            ok = false;
            break;
        }
        for (i, (x, y)) in base.iter().zip(r.iter()).enumerate() {
            if !same(x, y) {
                let kind = match (&x.outcome, &y.outcome) {
                    (MwOutcome::Value(_), MwOutcome::Value(_)) => "value-differs",
                    (MwOutcome::Value(_), MwOutcome::Failure(..)) => "failure-under-collection",
                    (_, MwOutcome::Panic(_)) => "panic-under-collection",
                    (_, MwOutcome::Budget) => "watchdog-under-collection",
                    _ => "outcome-differs",
                };
                rep.violation(
                    &format!("observable:{}:{}", kind, label.split(':').next().unwrap_or("")),
                    format!("form #{} {:#} under schedule {}: {} but without collections {} ({})", i, forms[i], s.name(), show_outcome(&y.outcome), show_outcome(&x.outcome), label),
                    wit(&s),
                    case,
                );
                ok = false;
                break;
            }
        }
        if r.len() != base.len() {
            ok = false;
        }
        if !ok {
            break;
        }
    }
    ok
}

/// One VM lives through hundreds of generated sessions (no forced schedule): every *natural*
/// collection is audited. This reaches heap layouts that short-lived VMs never see (cells freed
/// and reused at low indices, large procedures, growth of the heap).
fn long_lived_vm(ctx: &Ctx, rep: &mut Report, index: u64) {
    let mut rng = ctx.rng("c03-long", index);
    let mut m = MwVm::new();
    let log = Rc::new(RefCell::new(AuditLog::default()));
    // observer only: collections happen when the VM itself decides
    install(&mut m, &Schedule::EveryK(u64::MAX), log.clone(), 0);
    m.vm.verif_set_gc_schedule(None);
    let n_sessions = if ctx.quick() { 150 } else { 600 };
    let mut texts: Vec<String> = vec![];
    rep.evaluations += 1;
    for si in 0..n_sessions {
        let forms = if si % 5 == 4 {
            c05::session(&mut rng).forms
        } else {
            gen::session(&mut rng, c01::opts_main(), si % 7 == 3).forms
        };
        texts.push(gen::text_of(&forms));
        for f in &forms {
            if ctx.is_replay() {
                println!(";; session {} heap {} cells\n{:#}", si, m.vm.verif_stats().heap_capacity, f);
            }
            let r = run_form(&mut m, f);
            if let MwOutcome::Panic(p) = &r.outcome {
                rep.violation(
                    &format!("long-lived-vm:panic:{}", p.file()),
                    format!("after {} sessions in one VM, {:#} panicked: {} at {}", si, f, p.message, p.location),
                    Json::obj().set("sessions", texts.join("\n;;=====\n")).set("index", index),
                    (ctx.shard, index),
                );
                return;
            }
            if let MwOutcome::Budget = r.outcome {
                // run_form replaced the VM; re-install the observer
                install(&mut m, &Schedule::EveryK(u64::MAX), log.clone(), 0);
                m.vm.verif_set_gc_schedule(None);
            }
        }
        // the canary must keep working
        let c = run_form(&mut m, &c05::parse_forms("(+ 1 2)")[0]);
        if !matches!(&c.outcome, MwOutcome::Value(d) if d.show() == "3") {
            rep.violation("long-lived-vm:canary-fails", format!("after {} sessions (+ 1 2) -> {}", si, show_outcome(&c.outcome)), Json::obj().set("sessions", texts.join("\n;;=====\n")), (ctx.shard, index));
            return;
        }
        let first = log.borrow().findings.first().cloned();
        if let Some(f) = first {
            rep.violation(&format!("auditor:{}:natural-collection", f.kind), format!("{} at a natural collection after {} sessions in one VM :: {}", f.kind, si, f.detail), Json::obj().set("sessions", texts.join("\n;;=====\n")), (ctx.shard, index));
            return;
        }
    }
    let l = log.borrow();
    rep.count("natural_collections_audited", l.collections);
    rep.count("long_lived_vm_sessions", n_sessions as u64);
    rep.max("max_live_cells", l.max_live as u64);
    rep.nontrivial(hash_str(&format!("long{}", index)));
}

pub fn run(ctx: &Ctx, rep: &mut Report) {
    let verbose = ctx.is_replay() || ctx.witness.is_some();
    if let Some(w) = &ctx.witness {
        if ctx.replay.is_none() {
            let forms = c05::parse_forms(w.get("shrunk").and_then(|t| t.as_str()).unwrap_or(""));
            let mut rng = Rng::new(1);
            check_program(&forms, "replay", &mut rng, false, rep, (0, 0), true);
            for v in &rep.violations {
                println!("VIOLATION {} :: {}", v.sig, v.detail);
            }
            return;
        }
    }
    let n = ctx.cases(320, 2_000);
    for index in ctx.indices(n) {
        if index % 10 == 9 {
            long_lived_vm(ctx, rep, index);
            continue;
        }
        let mut rng = ctx.rng("c03", index);
        let (forms, label) = program(&mut rng, index);
        if verbose {
            println!("--- {} {}\n{}", index, label, gen::text_of(&forms));
        }
        if check_program(&forms, &label, &mut rng, ctx.quick(), rep, (ctx.shard, index), verbose) {
            rep.nontrivial(hash_str(&gen::text_of(&forms)));
            rep.see("program_kinds", label.split(':').take(2).collect::<Vec<_>>().join(":").as_str());
            if index % 37 == 5 {
                rep.sample(Json::obj().set("kind", label.as_str()).set("program", gen::text_of(&forms).chars().take(600).collect::<String>()));
            }
        }
    }
    if verbose {
        for v in &rep.violations {
            println!("VIOLATION {} :: {}", v.sig, v.detail);
        }
    }
}
