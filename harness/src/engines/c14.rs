//! C14 — list and vector procedures match their specification and preserve identity.
//!
//! History + executable model: a pool of objects bound to globals (proper and improper lists with
//! shared tails, empty and nested vectors, scalars) is mirrored in RefScheme, whose pairs and
//! vectors are reference-counted mutable objects with identity. After every operation the whole
//! pool is written out and compared, which makes aliasing observable without trusting eq?; eq?
//! probes check identity directly as well.
use crate::engines::c01::{diff_session, print_session, Verdict};
use crate::engines::c05::parse_forms;
use crate::gen;
use crate::json::Json;
use crate::report::Report;
use crate::rng::{hash_str, Rng};
use crate::Ctx;

const POOL: usize = 9;

struct G<'a> {
    rng: &'a mut Rng,
    /// what each pool object currently is, as far as the generator tracks it (for picking operands)
    kinds: Vec<char>, // 'l' list-ish (pair or nil), 'v' vector, 's' scalar
    ops: Vec<String>,
    tags: Vec<String>,
}

fn scalar(rng: &mut Rng) -> String {
    rng.pick::<&str>(&["0", "1", "2", "7", "-3", "'a", "'b", "'c", "#t", "#f", "'()", "#\\x", "#\\y", "42"]).to_string()
}

fn key(rng: &mut Rng) -> String {
    // keys on which eq?/eqv? are fully specified
    rng.pick::<&str>(&["'a", "'b", "'c", "'zz", "#t", "#f", "'()", "#\\x", "1", "2", "7", "42"]).to_string()
}

impl<'a> G<'a> {
    fn obj(&mut self, kind: char, below: usize) -> Option<usize> {
        let c: Vec<usize> = (0..below.min(POOL)).filter(|i| self.kinds[*i] == kind).collect();
        if c.is_empty() {
            None
        } else {
            Some(*self.rng.pick(&c))
        }
    }
    fn any_obj(&mut self, below: usize) -> usize {
        self.rng.usize(below.min(POOL).max(1))
    }
    fn idx(&mut self) -> String {
        // -1 .. len+1 for typical lengths, and far beyond
        match self.rng.usize(12) {
            0 => "-1".into(),
            1 => "100".into(),
            2 => "1000000".into(),
            3 => "4294967296".into(),
            _ => self.rng.range(0, 5).to_string(),
        }
    }
    fn value(&mut self, below: usize) -> String {
        // a scalar, a fresh aggregate, or an existing pool object of lower rank (keeps the pool a DAG)
        match self.rng.usize(6) {
            0 | 1 => scalar(self.rng),
            2 => format!("(list {} {})", scalar(self.rng), scalar(self.rng)),
            3 => format!("(vector {})", scalar(self.rng)),
            _ => {
                if below == 0 {
                    scalar(self.rng)
                } else {
                    format!("o{}", self.rng.usize(below.min(POOL)))
                }
            }
        }
    }

    fn setup(&mut self) -> Vec<String> {
        // a structural copy written with car/cdr/cons and the vector conversions only
        let mut forms = vec!["(define (dcopy x) (if (pair? x) (cons (dcopy (car x)) (dcopy (cdr x))) (if (vector? x) (list->vector (dcopy (vector->list x))) x)))".to_string()];
        for i in 0..POOL {
            let (form, kind) = match self.rng.usize(10) {
                0 => (format!("(define o{} (list {} {} {}))", i, scalar(self.rng), scalar(self.rng), scalar(self.rng)), 'l'),
                1 => (format!("(define o{} '())", i), 'l'),
                2 => {
                    // improper: the tail is a scalar, a string, a vector, or a vector of the pool
                    let tail = match self.obj('v', i) {
                        Some(j) if self.rng.chance(1, 4) => format!("o{}", j),
                        _ => rng_pick(self.rng, &["5", "'t", "#\\z", "(vector 1)", "(vector)", "\"s\""]),
                    };
                    (format!("(define o{} (cons {} {}))", i, scalar(self.rng), tail), 'l')
                }
                3 if i > 0 => match self.obj('l', i) {
                    Some(j) => (format!("(define o{} (cons {} o{}))", i, scalar(self.rng), j), 'l'), // shares a tail
                    None => (format!("(define o{} (list 1))", i), 'l'),
                },
                4 => (format!("(define o{} (vector))", i), 'v'),
                5 => (format!("(define o{} (vector {} {} {} {}))", i, scalar(self.rng), scalar(self.rng), scalar(self.rng), scalar(self.rng)), 'v'),
                6 if i > 1 => {
                    let a = self.rng.usize(i);
                    let b = self.rng.usize(i);
                    (format!("(define o{} (vector o{} {} o{}))", i, a, scalar(self.rng), b), 'v') // nested / aliasing
                }
                7 => (format!("(define o{} (list (cons 'a 1) (cons 'b 2) (cons 7 'seven) (cons #\\x \"s\")))", i), 'l'), // alist
                8 => (format!("(define o{} (make-vector {} {}))", i, self.rng.usize(4), scalar(self.rng)), 'v'),
                _ => (format!("(define o{} {})", i, scalar(self.rng)), 's'),
            };
            self.kinds[i] = kind;
            forms.push(form);
        }
        forms
    }

    fn op(&mut self) -> String {
        let pick = self.rng.usize(34);
        let l = self.obj('l', POOL);
        let v = self.obj('v', POOL);
        let any = self.any_obj(POOL);
        let lo = |x: Option<usize>, any: usize| format!("o{}", x.unwrap_or(any));
        let name;
        let s = match pick {
            0 => {
                name = "cons";
                format!("(define t (cons {} {}))", self.value(POOL), lo(l, any))
            }
            1 => {
                name = "car";
                format!("(car {})", lo(l, any))
            }
            2 => {
                name = "cdr";
                format!("(cdr {})", lo(l, any))
            }
            3 => {
                name = "set-car!";
                let t = l.unwrap_or(any);
                format!("(set-car! o{} {})", t, self.value(t))
            }
            4 => {
                name = "set-cdr!";
                let t = l.unwrap_or(any);
                let nv = match self.rng.usize(3) {
                    0 => scalar(self.rng),
                    1 => format!("(list {})", scalar(self.rng)),
                    _ => match self.obj('l', t) {
                        Some(j) => format!("o{}", j),
                        None => "'()".into(),
                    },
                };
                format!("(set-cdr! o{} {})", t, nv)
            }
            5 => {
                name = "list";
                format!("(list {} {} {})", self.value(POOL), self.value(POOL), scalar(self.rng))
            }
            6 => {
                name = "length";
                format!("(length {})", lo(l, any))
            }
            7 => {
                name = "append";
                match self.rng.usize(4) {
                    0 => "(append)".to_string(),
                    1 => format!("(append {})", lo(l, any)),
                    2 => format!("(define t (append {} {}))", lo(l, any), lo(self.obj('l', POOL), any)),
                    _ => format!("(append {} {} {})", lo(l, any), lo(self.obj('l', POOL), any), self.value(POOL)),
                }
            }
            8 => {
                name = "reverse";
                match self.rng.usize(3) {
                    0 => format!("(reverse {})", lo(l, any)),
                    // the result must be newly allocated: it is kept in t and the argument is mutated at once (a
                    // result that aliases its argument shows in the pool probe)
                    1 => format!("(define t (let ((r (reverse {a}))) (if (pair? {a}) (set-car! {a} 'mut)) r))", a = lo(l, any)),
                    _ => format!("(define t (let ((r (reverse {a}))) (if (pair? r) (set-cdr! r 'tail)) r))", a = lo(l, any)),
                }
            }
            9 => {
                name = "list-tail";
                format!("(list-tail {} {})", lo(l, any), self.idx())
            }
            10 => {
                name = "list-ref";
                format!("(list-ref {} {})", lo(l, any), self.idx())
            }
            11 => {
                name = "memq/memv/member";
                let f = *self.rng.pick(&["memq", "memv", "member"]);
                format!("({} {} {})", f, key(self.rng), lo(l, any))
            }
            12 => {
                name = "member-structural";
                format!("(member (list {}) (list (list 1) (list 'a) (list {}) 3))", scalar(self.rng), scalar(self.rng))
            }
            13 => {
                name = "assq/assv/assoc";
                let f = *self.rng.pick(&["assq", "assv", "assoc"]);
                format!("({} {} (list (cons 'a 1) (cons 'b o{}) (cons 7 'seven) (cons #\\x \"s\") (cons '() 0)))", f, key(self.rng), any)
            }
            14 => {
                name = "map";
                match self.rng.usize(3) {
                    0 => format!("(map (lambda (x) (cons x x)) {})", lo(l, any)),
                    1 => format!("(map (lambda (x y) (list x y)) {} {})", lo(l, any), lo(self.obj('l', POOL), any)),
                    _ => format!("(map car (list {} (list 1 2) (cons 3 4)))", lo(l, any)),
                }
            }
            15 => {
                name = "for-each";
                format!("(let ((acc '())) (for-each (lambda (x) (set! acc (cons x acc))) {}) acc)", lo(l, any))
            }
            16 => {
                name = "list?";
                format!("(list (list? o{}) (pair? o{}) (null? o{}) (vector? o{}))", any, any, any, any)
            }
            17 => {
                name = "vector";
                format!("(define t (vector {} {}))", self.value(POOL), self.value(POOL))
            }
            18 => {
                name = "make-vector";
                format!("(define t (make-vector {} {}))", self.rng.pick::<&str>(&["0", "1", "3", "-1", "'a"]), self.value(POOL))
            }
            19 => {
                name = "vector-length";
                format!("(vector-length {})", lo(v, any))
            }
            20 | 21 => {
                name = "vector-ref";
                format!("(vector-ref {} {})", lo(v, any), self.idx())
            }
            22 | 23 => {
                name = "vector-set!";
                let t = v.unwrap_or(any);
                format!("(vector-set! o{} {} {})", t, self.idx(), self.value(t))
            }
            24 | 25 => {
                name = "vector-fill!";
                let t = v.unwrap_or(any);
                format!("(vector-fill! o{} {})", t, self.value(t))
            }
            26 => {
                name = "vector->list";
                format!("(define t (vector->list {}))", lo(v, any))
            }
            27 => {
                name = "list->vector";
                format!("(define t (list->vector {}))", lo(l, any))
            }
            28 | 29 => {
                name = "vector-copy";
                if self.rng.bool() {
                    format!("(define t (vector-copy {}))", lo(v, any))
                } else {
                    format!("(define t (vector-copy {} {}))", lo(v, any), self.idx())
                }
            }
            30 | 31 | 32 => {
                name = "vector-copy!";
                let t = v.unwrap_or(any);
                // the source must not be able to contain the target (no cycles): lower rank or fresh
                // (the target itself is fine: elements are copied, and overlapping ranges must behave as
                // if the source were copied to a temporary first)
                let from = match self.obj('v', t) {
                    _ if self.rng.chance(1, 4) => format!("o{}", t),
                    Some(j) if self.rng.chance(3, 4) => format!("o{}", j),
                    _ => format!("(vector {} {} {})", scalar(self.rng), scalar(self.rng), scalar(self.rng)),
                };
                if from == format!("o{}", t) && self.rng.bool() {
                    // overlapping ranges within one vector, in both directions
                    let start = self.rng.range(0, 3);
                    let len = self.rng.range(1, 4);
                    let at = start + *self.rng.pick(&[1i64, 1, 2, -1]);
                    self.tags.push("vector-copy!:overlapping".to_string());
                    return format!("(vector-copy! o{} {} o{} {} {})", t, at, t, start, start + len);
                }
                match self.rng.usize(3) {
                    0 => format!("(vector-copy! o{} {} {})", t, self.idx(), from),
                    1 => format!("(vector-copy! o{} {} {} {})", t, self.idx(), from, self.idx()),
                    _ => format!("(vector-copy! o{} {} {} {} {})", t, self.idx(), from, self.idx(), self.idx()),
                }
            }
            _ => {
                name = "equal?/eq?";
                let a = self.any_obj(POOL);
                let b = self.any_obj(POOL);
                format!("(list (equal? o{a} o{b}) (equal? o{a} (dcopy o{a})) (eq? o{a} o{a}))", a = a, b = b)
            }
        };
        self.tags.push(name.to_string());
        s
    }
}

fn rng_pick(rng: &mut Rng, xs: &[&str]) -> String {
    rng.pick::<&str>(xs).to_string()
}

const PROBE: &str = "(list o0 o1 o2 o3 o4 o5 o6 o7 o8 t)";

fn identity_probe(rng: &mut Rng) -> String {
    // Only identities that must hold are probed: the same element or tail reached twice is the same
    // object. Whether two *distinct* pairs with identical components are eq? is not asked: the pinned
    // suite fixes (eq? (cons foo bar) (cons foo bar)) => #t, so a negative answer cannot be demanded.
    let a = rng.usize(POOL);
    format!(
        "(list (if (and (vector? o{a}) (> (vector-length o{a}) 0)) (list (eq? (vector-ref o{a} 0) (vector-ref o{a} 0)) (eqv? (vector-ref o{a} 0) (vector-ref o{a} 0))) 'nv) (if (pair? o{a}) (list (eq? (car o{a}) (car o{a})) (eq? (cdr o{a}) (cdr o{a})) (eq? (list-tail o{a} 1) (cdr o{a}))) 'np) (eq? o{a} o{a}))",
        a = a
    )
}

pub fn session(rng: &mut Rng) -> (Vec<String>, Vec<String>) {
    let mut g = G { rng, kinds: vec!['s'; POOL], ops: vec![], tags: vec![] };
    let mut forms = g.setup();
    forms.push("(define t 0)".into());
    let n = 1 + g.rng.usize(12);
    for _ in 0..n {
        let op = g.op();
        g.ops.push(op.clone());
        forms.push(op);
        forms.push(PROBE.to_string());
        if g.rng.chance(1, 2) {
            forms.push(identity_probe(g.rng));
        }
    }
    (forms, g.tags)
}

fn op_name(form: &str) -> String {
    // first procedure name in the operation form (skipping a (define t …) wrapper)
    let f = form.trim_start_matches("(define t ");
    f.trim_start_matches('(').split(|c: char| c == ' ' || c == ')').next().unwrap_or("?").to_string()
}

pub fn run(ctx: &Ctx, rep: &mut Report) {
    let verbose = ctx.is_replay() || ctx.witness.is_some();
    if let Some(w) = &ctx.witness {
        if ctx.replay.is_none() {
            print_session(&parse_forms(w.get("shrunk").and_then(|t| t.as_str()).unwrap_or("")));
            return;
        }
    }
    let n = ctx.cases(50_000, 1_000_000);
    for index in ctx.indices(n) {
        let mut rng = ctx.rng("c14", index);
        let (forms, tags) = session(&mut rng);
        let text = forms.join("\n");
        let cells = parse_forms(&text);
        rep.evaluations += 1;
        if verbose {
            print_session(&cells);
        }
        match diff_session(&cells) {
            Verdict::Agree { forms_compared, failures_seen } => {
                rep.count("forms_compared", forms_compared as u64);
                rep.count("error_outcomes_compared", failures_seen as u64);
                rep.count("operations", tags.len() as u64);
                for t in &tags {
                    rep.see("procedures", t);
                }
                rep.nontrivial(hash_str(&text));
                if index % 4999 == 3 {
                    rep.sample(Json::obj().set("session", text.as_str()));
                }
            }
            Verdict::ModelUndecided { why, .. } => {
                rep.count("model_undecided", 1);
                rep.see("model_undecided_reasons", &format!("{:?}", why).chars().take(70).collect::<String>());
            }
            Verdict::Watchdog { .. } => rep.inconclusive("watchdog"),
            Verdict::Mismatch { at, kind, detail } => {
                // the operation is the last non-probe form at or before `at`
                let mut k = at;
                while k > 0 && (forms[k] == PROBE || forms[k].starts_with("(list (if (and (vector?")) {
                    k -= 1;
                }
                let opn = op_name(&forms[k]);
                let where_ = if k == at { "result" } else if forms[at] == PROBE { "pool-contents-afterwards" } else { "identity-probe-afterwards" };
                // minimal session: setup + the operation + the failing probe
                let mut small: Vec<String> = forms[..POOL + 1].to_vec();
                small.push(forms[k].clone());
                if k != at {
                    small.push(forms[at].clone());
                }
                let small_text = small.join("\n");
                let reproduced = matches!(diff_session(&parse_forms(&small_text)), Verdict::Mismatch { .. });
                let arg_class = classify_args(&forms[k]);
                rep.violation(
                    &format!("{}:{}:{}:{}", opn, arg_class, kind.split(':').next().unwrap_or(&kind), where_),
                    format!("operation {} :: {}", forms[k], detail.chars().take(600).collect::<String>()),
                    Json::obj().set("shrunk", if reproduced { small_text } else { text.clone() }).set("operation", forms[k].as_str()),
                    (ctx.shard, index),
                );
            }
        }
    }
    let _ = gen::int(0);
    if verbose {
        for v in &rep.violations {
            println!("VIOLATION {} :: {}", v.sig, v.detail);
        }
    }
}

/// argument-shape class of an operation (for signatures)
fn classify_args(form: &str) -> String {
    let mut cls = vec![];
    if form.contains(" -1") {
        cls.push("index=-1");
    }
    if form.contains(" 100") || form.contains("4294967296") {
        cls.push("index-far-out");
    }
    if form.contains("(vector)") {
        cls.push("empty-vector");
    }
    if cls.is_empty() {
        let argc = form.matches(' ').count();
        return format!("argc~{}", argc.min(6));
    }
    cls.join(",")
}
