//! C19 — depth is limited by memory, not by the host's native stack.
//!
//! Process-exit monitor over a grid {structure direction} x {operation} x {depth} x {thread} x
//! {build}: every cell runs in its own child process under an explicit RLIMIT_STACK (8 MiB main
//! thread) or on a 2 MiB std::thread. A cell passes when the child exits 0 having printed a value
//! or an error; death by signal is the event that refutes the property.
use crate::json::Json;
use crate::report::Report;
use crate::rng::hash_str;
use crate::sandbox::{self, Exit, Limits};
use crate::Ctx;
use marwood::cell::Cell;
use marwood::parse;
use marwood::vm::Vm;
use std::time::Duration;

pub const GRID: [(&str, &[&str]); 8] = [
    ("car-nested-list", &["read", "quote-evaluate", "build", "collect", "equal", "write", "drop"]),
    ("cdr-nested-list", &["read", "quote-evaluate", "build", "collect", "equal", "write", "drop", "append", "reverse", "length", "list->vector", "map", "apply", "member", "list-tail", "dotted-tail"]),
    ("nested-vectors", &["read", "quote-evaluate", "build", "collect", "equal", "write", "drop"]),
    ("quote-chain", &["read", "quote-evaluate", "build", "collect", "equal", "write", "drop"]),
    ("closure-chain", &["build", "collect", "call", "drop"]),
    ("continuation-chain", &["build", "collect", "drop"]),
    ("non-tail-recursion", &["evaluate", "collect", "error-at-depth", "capture-continuation"]),
    ("nested-expression", &["read", "evaluate", "lambda-body", "drop"]),
];
pub const OMITTED: &str = "closure/continuation chains and recursion have no textual form (no read / quote-evaluate / write / equal?); nested expressions are code, not data (no build / collect / equal? / write)";

fn text_for(dir: &str, n: usize) -> String {
    match dir {
        "car-nested-list" => format!("{}{}", "(".repeat(n), ")".repeat(n)),
        "cdr-nested-list" => {
            let mut s = String::with_capacity(n * 7);
            s.push('(');
            for i in 0..n {
                s.push_str(&i.to_string());
                s.push(' ');
            }
            s.push(')');
            s
        }
        "nested-vectors" => format!("{}{}", "#(".repeat(n), ")".repeat(n)),
        "quote-chain" => format!("{}x", "'".repeat(n)),
        "nested-expression" => format!("{}0{}", "(+ 1 ".repeat(n), ")".repeat(n)),
        _ => String::new(),
    }
}

fn builder_for(dir: &str, name: &str, n: usize) -> String {
    match dir {
        "car-nested-list" => format!("(define {name} (let loop ((i 0) (acc '())) (if (< i {n}) (loop (+ i 1) (list acc)) acc)))", name = name, n = n),
        "cdr-nested-list" => format!("(define {name} (let loop ((i 0) (acc '())) (if (< i {n}) (loop (+ i 1) (cons i acc)) acc)))", name = name, n = n),
        "nested-vectors" => format!("(define {name} (let loop ((i 0) (acc (vector))) (if (< i {n}) (loop (+ i 1) (vector acc)) acc)))", name = name, n = n),
        "quote-chain" => format!("(define {name} (let loop ((i 0) (acc 'x)) (if (< i {n}) (loop (+ i 1) (list 'quote acc)) acc)))", name = name, n = n),
        "closure-chain" => format!("(define {name} (let loop ((i 0) (f (lambda () 0))) (if (< i {n}) (loop (+ i 1) (let ((g f)) (lambda () (+ 1 (g))))) f)))", name = name, n = n),
        "continuation-chain" => format!("(define {name} (let loop ((i 0) (prev #f)) (if (< i {n}) (loop (+ i 1) (call/cc (lambda (k) k))) prev)))", name = name, n = n),
        _ => String::new(),
    }
}

fn eval_all(vm: &mut Vm, src: &str) -> Result<Cell, String> {
    let mut rest: &str = src;
    loop {
        match vm.eval_text(rest) {
            Err(e) => return Err(format!("error: {}", e)),
            Ok((c, r)) => match r {
                Some(r) => rest = r,
                None => return Ok(c),
            },
        }
    }
}

fn short(c: &Cell) -> String {
    match c {
        Cell::Pair(_, _) => "pair".into(),
        Cell::Vector(_) => "vector".into(),
        other => format!("{:#}", other).chars().take(40).collect(),
    }
}

/// run one grid cell in this process; Ok = completed or reported an error
fn scenario(dir: &str, op: &str, n: usize) -> String {
    let mut vm = Vm::new();
    let res: Result<String, String> = (|| {
        match (dir, op) {
            (_, "read") => {
                let t = text_for(dir, n);
                match parse::parse_text(&t) {
                    Ok((c, _)) => {
                        let s = short(&c);
                        std::mem::forget(c);
                        Ok(s)
                    }
                    Err(e) => Err(format!("{}", e)),
                }
            }
            (_, "quote-evaluate") => {
                let t = format!("(quote {})", text_for(dir, n));
                match vm.eval_text(&t) {
                    Ok((c, _)) => {
                        let s = short(&c);
                        std::mem::forget(c);
                        Ok(s)
                    }
                    Err(e) => Err(format!("{}", e)),
                }
            }
            ("nested-expression", "evaluate") => {
                let t = text_for(dir, n);
                let (c, _) = vm.eval_text(&t).map_err(|e| e.to_string())?;
                Ok(short(&c))
            }
            ("nested-expression", "lambda-body") => {
                let t = format!("(define (f) {}) (f)", text_for(dir, n));
                let c = eval_all(&mut vm, &t)?;
                Ok(short(&c))
            }
            ("nested-expression", "drop") => {
                let t = text_for(dir, n);
                let (c, _) = parse::parse_text(&t).map_err(|e| e.to_string())?;
                drop(c);
                Ok("dropped".into())
            }
            ("non-tail-recursion", "evaluate") => {
                let c = eval_all(&mut vm, &format!("(define (sum n) (if (= n 0) 0 (+ 1 (sum (- n 1))))) (sum {})", n))?;
                Ok(short(&c))
            }
            ("non-tail-recursion", "collect") => {
                let every = (n as u64 / 3).max(1000);
                vm.verif_set_gc_schedule(Some(Box::new(move |_vm, i| i % every == 0)));
                let c = eval_all(&mut vm, &format!("(define (mk n) (if (= n 0) '() (cons (list n) (mk (- n 1))))) (length (mk {}))", n))?;
                Ok(short(&c))
            }
            ("non-tail-recursion", "error-at-depth") => {
                let r = eval_all(&mut vm, &format!("(define (bad n) (if (= n 0) (car 5) (+ 1 (bad (- n 1))))) (bad {})", n));
                let frames = vm.last_stacktrace().map(|t| t.frames.len()).unwrap_or(0);
                match r {
                    Err(e) => Ok(format!("reported {} with {} trace frames", e.chars().take(30).collect::<String>(), frames)),
                    Ok(c) => Ok(short(&c)),
                }
            }
            ("non-tail-recursion", "capture-continuation") => {
                let c = eval_all(&mut vm, &format!("(define kk #f) (define (dive n) (if (= n 0) (call/cc (lambda (k) (set! kk k) 0)) (+ 1 (dive (- n 1))))) (dive {}) (define again #t) (if again (begin (set! again #f) (kk 5)) 'done)", n))?;
                vm.verif_force_gc();
                Ok(short(&c))
            }
            ("cdr-nested-list", "dotted-tail") => {
                // a flat list that ends in a dotted tail: read as text, and returned as the value of an evaluation
                let mut t = text_for(dir, n);
                t.pop();
                t.push_str(". end)");
                let (c, _) = parse::parse_text(&t).map_err(|e| e.to_string())?;
                let s1 = short(&c);
                std::mem::forget(c);
                let c = eval_all(&mut vm, &format!("(let loop ((i 0) (acc 'end)) (if (< i {}) (loop (+ i 1) (cons i acc)) acc))", n))?;
                let s2 = short(&c);
                std::mem::forget(c);
                Ok(format!("{} {}", s1, s2))
            }
            ("cdr-nested-list", "append" | "reverse" | "length" | "list->vector" | "map" | "apply" | "member" | "list-tail") => {
                eval_all(&mut vm, &builder_for(dir, "d", n))?;
                let e = match op {
                    "append" => "(list (length (append d (list 1 2))) (length (append d d)) (length (append (list 1) d)))".to_string(),
                    "reverse" => "(car (reverse d))".to_string(),
                    "length" => "(list (length d) (list? d))".to_string(),
                    "list->vector" => "(length (vector->list (list->vector d)))".to_string(),
                    "map" => "(begin (for-each (lambda (x) x) d) (length (map (lambda (x) (+ x 1)) d)))".to_string(),
                    "apply" => "(apply + d)".to_string(),
                    "member" => "(list (memq 'absent d) (member 0 d) (memv -1 d))".to_string(),
                    _ => format!("(list (list-tail d {}) (list-ref d {}))", n - 1, n - 1),
                };
                let c = eval_all(&mut vm, &e)?;
                let s = short(&c);
                std::mem::forget(c);
                Ok(s)
            }
            (_, "build") => {
                eval_all(&mut vm, &builder_for(dir, "d", n))?;
                Ok("built".into())
            }
            (_, "collect") => {
                eval_all(&mut vm, &builder_for(dir, "d", n))?;
                vm.verif_force_gc();
                vm.verif_force_gc();
                let c = eval_all(&mut vm, "(if (procedure? d) 'procedure (if (pair? d) 'pair (if (vector? d) 'vector d)))")?;
                Ok(short(&c))
            }
            ("closure-chain", "call") => {
                eval_all(&mut vm, &builder_for(dir, "d", n))?;
                let c = eval_all(&mut vm, "(d)")?;
                Ok(short(&c))
            }
            (_, "equal") => {
                eval_all(&mut vm, &builder_for(dir, "d1", n))?;
                eval_all(&mut vm, &builder_for(dir, "d2", n))?;
                let c = eval_all(&mut vm, "(equal? d1 d2)")?;
                Ok(short(&c))
            }
            (_, "write") => {
                eval_all(&mut vm, &builder_for(dir, "d", n))?;
                let c = eval_all(&mut vm, "d")?;
                let s = format!("{:#}", c);
                let r = format!("{} chars", s.len());
                std::mem::forget(c);
                Ok(r)
            }
            (_, "drop") => {
                eval_all(&mut vm, &builder_for(dir, "d", n))?;
                if matches!(dir, "closure-chain" | "continuation-chain") {
                    Ok("vm-dropped-below".into())
                } else {
                    let c = eval_all(&mut vm, "d")?;
                    drop(c);
                    Ok("dropped".into())
                }
            }
            _ => Err("no-such-cell".into()),
        }
    })();
    let out = match res {
        Ok(s) => format!("ok {}", s),
        Err(e) => format!("err {}", e.chars().take(60).collect::<String>()),
    };
    if op == "drop" {
        drop(vm);
    } else {
        // do not let an unrelated destructor decide this cell
        std::mem::forget(vm);
    }
    out
}

fn child(ctx: &Ctx) {
    // arg: cell:<dir>:<op>:<depth>:<thread>
    let a = ctx.arg.clone().unwrap_or_default();
    let parts: Vec<&str> = a.split(':').collect();
    let (dir, op, depth, thread) = (parts[1].to_string(), parts[2].to_string(), parts[3].parse::<usize>().unwrap(), parts[4].to_string());
    let scale = scale_percent();
    let out = if thread == "thread2m" {
        let h = std::thread::Builder::new().stack_size((2usize << 20) * scale / 100).spawn(move || scenario(&dir, &op, depth)).unwrap();
        h.join().unwrap_or_else(|_| "err thread-panicked".into())
    } else {
        scenario(&dir, &op, depth)
    };
    println!("DONE {}", out);
}

pub fn run(ctx: &Ctx, rep: &mut Report) {
    if ctx.arg.as_deref().map(|a| a.starts_with("cell:")).unwrap_or(false) {
        child(ctx);
        std::process::exit(0);
    }
    if let Some(w) = &ctx.witness {
        // replay one cell and show how the child ends
        let cell = w.get("cell").and_then(|c| c.as_str()).unwrap_or("").to_string();
        let r = run_cell(ctx, &cell);
        println!("cell {} [{}] -> {:?} {}", cell, ctx.build, r.0, r.1);
        return;
    }
    let depths: Vec<usize> = vec![1_000, 10_000, 100_000];
    let threads = ["main8m", "thread2m"];
    let mut cells: Vec<String> = vec![];
    for (dir, ops) in GRID.iter() {
        for op in ops.iter() {
            for d in &depths {
                for t in threads {
                    // quick: 10^5 only in the release build, on the main thread for every row, and also on
                    // the 2 MiB thread for the two rows the property holds for today (flat lists, recursion)
                    let holds_today = matches!(*dir, "cdr-nested-list" | "non-tail-recursion");
                    if ctx.quick() && *d == 100_000 && !(ctx.build == "release" && (t == "main8m" || holds_today)) {
                        continue;
                    }
                    cells.push(format!("{}:{}:{}:{}", dir, op, d, t));
                }
            }
        }
    }
    rep.exhaustive = !ctx.quick();
    for (i, cell) in cells.iter().enumerate() {
        if i as u64 % ctx.nshards != ctx.shard {
            continue;
        }
        rep.evaluations += 1;
        let (exit, line, stderr) = run_cell(ctx, cell);
        rep.see("cells_run", &format!("{}:{}", cell, ctx.build));
        match &exit {
            Exit::Code(0) if line.starts_with("DONE") => {
                rep.count("cells_completed", 1);
                if line.starts_with("DONE err") {
                    rep.count("cells_reporting_an_error", 1);
                }
                rep.nontrivial(hash_str(&format!("{}:{}", cell, ctx.build)));
                if rep.want_sample() && i % 37 == 3 {
                    rep.sample(Json::obj().set("cell", cell.as_str()).set("build", ctx.build.as_str()).set("result", line.as_str()));
                }
            }
            Exit::Signal(_) => {
                rep.count("cells_killed_by_signal", 1);
                let kind = sandbox::death_kind(&exit, &stderr);
                let sig = format!("{}:{}", cell, ctx.build);
                rep.violation(&sig, format!("child for cell {} [{} build] died: {} ({:?}); stderr tail: {}", cell, ctx.build, kind, exit, stderr.chars().rev().take(160).collect::<String>().chars().rev().collect::<String>()), Json::obj().set("cell", cell.as_str()).set("build", ctx.build.as_str()).set("death", kind), (ctx.shard, i as u64));
            }
            other => {
                rep.inconclusive(&format!("cell {} ended with {:?} {}", cell, other, line));
            }
        }
    }
}

/// margin experiments only (tools/): MWV_C19_SCALE=85 shrinks both stack limits to 85 %
fn scale_percent() -> usize {
    std::env::var("MWV_C19_SCALE").ok().and_then(|v| v.parse().ok()).unwrap_or(100)
}

fn run_cell(ctx: &Ctx, cell: &str) -> (Exit, String, String) {
    let args = vec![
        "c19".to_string(),
        "--build".into(),
        ctx.build.clone(),
        "--arg".into(),
        format!("cell:{}", cell),
    ];
    let mut last = String::new();
    let out = sandbox::spawn(&args, &Limits { stack_kib: Some(8192 * scale_percent() as u64 / 100), as_kib: Some(8 << 20) }, Duration::from_secs(300), Duration::from_secs(600), |l| {
        if l.starts_with("DONE") {
            last = l.to_string();
        }
    });
    (out.exit, last, out.stderr_tail)
}
