//! C04 — calls in tail position run in constant stack space.
//!
//! Invariant at a hook: the stack high-water mark (sampled at every instruction boundary by the
//! `verif` tick) of a loop of n tail calls must not depend on n. The bound is relative
//! (n = 10^3 vs n = 10^5), so frame layout or initial capacity can change without an alarm.
use crate::json::Json;
use crate::mw::catch;
use crate::report::Report;
use crate::rng::{hash_str, Rng};
use crate::Ctx;
use marwood::cell::Cell;
use marwood::vm::Vm;

pub const CONTEXTS: [(&str, &str); 23] = [
    ("if-then", "(if #t {} 0)"),
    ("if-else", "(if #f 0 {})"),
    ("cond-clause", "(cond (#f 0) ((= 1 1) {}) (else 0))"),
    ("cond-else", "(cond (#f 0) (else {}))"),
    ("cond-arrow", "(cond (1 => (lambda (cx) {})) (else 0))"),
    ("case-clause", "(case 3 ((1 2) 0) ((3 4) {}) (else 0))"),
    ("case-else", "(case 9 ((1 2) 0) (else {}))"),
    ("case-arrow", "(case 3 ((3) => (lambda (cx) {})) (else 0))"),
    ("and-last", "(and 1 2 {})"),
    ("or-last", "(or #f #f {})"),
    ("when", "(when #t 1 {})"),
    ("unless", "(unless #f 1 {})"),
    ("let", "(let ((cx 1) (cy 2)) {})"),
    ("let*", "(let* ((cx 1) (cy cx)) {})"),
    ("letrec", "(letrec ((cg (lambda () 1))) {})"),
    ("named-let", "(let cl ((ci 0)) {})"),
    ("begin", "(begin 1 2 {})"),
    ("lambda-body", "((lambda (cx) 1 {}) 0)"),
    ("internal-define-body", "(let () (define cz 1) {})"),
    ("call/cc-receiver-body", "(call/cc (lambda (ck) {}))"),
    ("apply-thunk", "(apply (lambda () {}) '())"),
    ("eval", "(eval '{})"),
    ("if-in-let-in-when", "(when #t (let ((cx 1)) (if cx {} 0)))"),
];

#[derive(Clone, Debug)]
pub struct Proc {
    pub name: String,
    pub fixed: usize,
    pub rest: bool,
}

impl Proc {
    fn formals(&self) -> String {
        let mut names: Vec<String> = (0..self.fixed).map(|i| format!("a{}", i)).collect();
        if self.rest {
            if names.is_empty() {
                return "r".to_string();
            }
            names.push(".".into());
            names.push("r".into());
        }
        format!("({})", names.join(" "))
    }
    fn header(&self) -> String {
        let f = self.formals();
        if f == "r" {
            format!("({} . r)", self.name)
        } else {
            format!("({} {})", self.name, &f[1..f.len() - 1]).replace("  ", " ").replace(" )", ")")
        }
    }
}

/// call of `callee` with `argc` constant arguments, through the given leaf form
fn leaf_call(callee: &Proc, argc: usize, form: usize) -> (String, &'static str) {
    let args: Vec<String> = (0..argc).map(|i| format!("{}", i + 1)).collect();
    match form {
        1 => (format!("(apply {} '({}))", callee.name, args.join(" ")), "apply-list"),
        2 if argc >= 1 => (format!("(apply {} {} '({}))", callee.name, args[0], args[1..].join(" ")), "apply-spread"),
        3 => (format!("(eval '({} {}))", callee.name, args.join(" ")).replace(" )", ")"), "eval-leaf"),
        4 if argc == 1 => (format!("(call/cc {})", callee.name), "call/cc-direct"),
        _ => (format!("({} {})", callee.name, args.join(" ")).replace(" )", ")"), "direct"),
    }
}

pub struct Program {
    pub defs: String,
    pub desc: String,
    pub tags: Vec<String>,
    pub entry: String,
}

/// Build the program for composition `ctxs` (outermost first), procedures and leaf forms.
pub fn build(ctxs: &[usize], procs: &[Proc], argcs: &[usize], leaf_forms: &[usize]) -> Program {
    let mut defs = String::new();
    defs.push_str("(define %n 0)\n(define (dec!) (set! %n (- %n 1)) %n)\n");
    let mut tags = vec![];
    for (i, p) in procs.iter().enumerate() {
        let callee = &procs[(i + 1) % procs.len()];
        let argc = argcs[(i + 1) % procs.len()];
        let (mut e, leaf_name) = leaf_call(callee, argc, leaf_forms[i % leaf_forms.len()]);
        tags.push(leaf_name.to_string());
        for &c in ctxs.iter().rev() {
            e = CONTEXTS[c].1.replace("{}", &e);
        }
        defs.push_str(&format!("(define {} (if (< (dec!) 0) 'done {}))\n", p.header(), e));
    }
    for &c in ctxs {
        tags.push(CONTEXTS[c].0.to_string());
    }
    let first = &procs[0];
    let (entry, _) = leaf_call(first, argcs[0], 0);
    let desc = format!(
        "ctx=[{}] procs=[{}] argc={:?} leaf={:?}",
        ctxs.iter().map(|&c| CONTEXTS[c].0).collect::<Vec<_>>().join(" > "),
        procs.iter().map(|p| format!("{}/{}{}", p.name, p.fixed, if p.rest { "+" } else { "" })).collect::<Vec<_>>().join(","),
        argcs,
        tags.iter().take(procs.len()).collect::<Vec<_>>()
    );
    Program { defs, desc, tags, entry }
}

fn eval_all(vm: &mut Vm, src: &str) -> Result<Cell, String> {
    let mut rest: &str = src;
    let mut last = Cell::Void;
    loop {
        match catch(|| vm.eval_text(rest)) {
            Err(p) => return Err(format!("panic: {} at {}", p.message, p.location)),
            Ok(Err(e)) => return Err(format!("error: {}", e)),
            Ok(Ok((c, r))) => {
                last = c;
                match r {
                    Some(r) => rest = r,
                    None => return Ok(last),
                }
            }
        }
    }
}

pub struct Measure {
    pub max_sp: usize,
    pub base_sp: usize,
    pub instr: u64,
    pub value: Result<Cell, String>,
    pub n_after: Result<Cell, String>,
}

pub fn measure(vm: &mut Vm, prog: &Program, n: u64) -> Measure {
    let _ = eval_all(vm, &format!("(set! %n {})", n));
    vm.verif_reset_counters();
    let base_sp = vm.verif_stats().sp;
    let value = eval_all(vm, &prog.entry);
    let st = vm.verif_stats();
    let n_after = eval_all(vm, "%n");
    Measure { max_sp: st.max_sp, base_sp, instr: st.instr_count, value, n_after }
}

const SLACK: usize = 32;

fn check_program(prog: &Program, rep: &mut Report, case: (u64, u64), verbose: bool, ns: &[u64]) -> bool {
    let mut vm = Vm::new();
    rep.evaluations += 1;
    if let Err(e) = eval_all(&mut vm, &prog.defs) {
        rep.violation("program-rejected", format!("definitions failed: {} :: {}", e, prog.desc), Json::obj().set("defs", prog.defs.as_str()).set("entry", prog.entry.as_str()), case);
        return false;
    }
    let mut ms = vec![];
    if verbose {
        println!("{}\n{}\nentry: {}", prog.desc, prog.defs, prog.entry);
    }
    for &n in ns {
        let m = measure(&mut vm, prog, n);
        if verbose {
            println!("n={} max_sp={} base_sp={} instr={} value={:?} %n={:?}", n, m.max_sp, m.base_sp, m.instr, m.value, m.n_after);
        }
        let ok_val = matches!(&m.value, Ok(Cell::Symbol(s)) if s == "done");
        let ok_n = matches!(&m.n_after, Ok(Cell::Number(x)) if format!("{}", x) == "-1");
        if !ok_val || !ok_n {
            rep.violation(
                &format!("wrong-loop-value:{}", prog.tags.join("+")),
                format!("n={} value={:?} %n={:?} :: {}", n, m.value.as_ref().map(|c| format!("{:#}", c)), m.n_after.as_ref().map(|c| format!("{:#}", c)), prog.desc),
                Json::obj().set("defs", prog.defs.as_str()).set("entry", prog.entry.as_str()).set("n", n),
                case,
            );
            return false;
        }
        ms.push(m);
    }
    rep.count("loops_run", ms.len() as u64);
    rep.count("instructions_observed", ms.iter().map(|m| m.instr).sum());
    let small = &ms[ms.len() - 2];
    let large = &ms[ms.len() - 1];
    let hw_small = small.max_sp - small.base_sp.min(small.max_sp);
    let hw_large = large.max_sp - large.base_sp.min(large.max_sp);
    rep.max("max_stack_highwater_slots", hw_large as u64);
    if hw_large > hw_small + SLACK {
        // which context is to blame? report the whole composition; the signature names the set
        rep.violation(
            &format!("stack-grows-with-n:{}", prog.tags.join("+")),
            format!("stack high-water {} slots at n={} vs {} slots at n={} :: {}", hw_large, ns[ns.len() - 1], hw_small, ns[ns.len() - 2], prog.desc),
            Json::obj().set("defs", prog.defs.as_str()).set("entry", prog.entry.as_str()).set("hw_small", hw_small).set("hw_large", hw_large),
            case,
        );
        return false;
    }
    true
}

fn pick_procs(rng: &mut Rng, shape: usize) -> (Vec<Proc>, Vec<usize>) {
    let names = ["f", "g", "h"];
    let k = shape.clamp(1, 3);
    let mut procs = vec![];
    let mut argcs = vec![];
    for i in 0..k {
        let fixed = rng.usize(5);
        let rest = rng.chance(1, 3);
        let argc = if rest { fixed + rng.usize(3) } else { fixed };
        procs.push(Proc { name: names[i].to_string(), fixed, rest });
        argcs.push(argc);
    }
    (procs, argcs)
}

fn control_grows(rep: &mut Report) {
    // the counter must be alive: a non-tail recursion has to grow
    let mut vm = Vm::new();
    let _ = eval_all(&mut vm, "(define (nt n) (if (= n 0) 0 (+ 1 (nt (- n 1)))))");
    vm.verif_reset_counters();
    let b = vm.verif_stats().sp;
    let _ = eval_all(&mut vm, "(nt 10)");
    let a = vm.verif_stats().max_sp - b;
    vm.verif_reset_counters();
    let _ = eval_all(&mut vm, "(nt 1000)");
    let c = vm.verif_stats().max_sp - b;
    if c > a + 1000 {
        rep.count("control_nontail_growth_observed", 1);
        rep.max("max_control_nontail_highwater_n1000", c as u64);
    }
}

pub fn run(ctx: &Ctx, rep: &mut Report) {
    let verbose = ctx.is_replay() || ctx.witness.is_some();
    let ns: [u64; 3] = [10, 1_000, 100_000];
    if let Some(w) = &ctx.witness {
        if ctx.replay.is_none() {
            let prog = Program {
                defs: w.get("defs").and_then(|d| d.as_str()).unwrap_or("").to_string(),
                entry: w.get("entry").and_then(|d| d.as_str()).unwrap_or("").to_string(),
                desc: "replayed witness".into(),
                tags: vec!["replay".into()],
            };
            println!("{}\nentry: {}", prog.defs, prog.entry);
            check_program(&prog, rep, (0, 0), true, &ns);
            for v in &rep.violations {
                println!("VIOLATION {} :: {}", v.sig, v.detail);
            }
            return;
        }
    }
    control_grows(rep);
    let nc = CONTEXTS.len();
    // enumerated compositions: depth 1, 2 (quick) and 3 (thorough); per composition several
    // (shape, arity, leaf) samples chosen by the seeded PRNG
    let max_depth = if ctx.quick() { 2 } else { 3 };
    let per_comp = if ctx.quick() { 3 } else { 4 };
    let mut comps: Vec<Vec<usize>> = vec![];
    for d in 1..=max_depth {
        let total = nc.pow(d as u32);
        for i in 0..total {
            let mut v = vec![];
            let mut x = i;
            for _ in 0..d {
                v.push(x % nc);
                x /= nc;
            }
            comps.push(v);
        }
    }
    let total_cases = (comps.len() * per_comp) as u64;
    rep.exhaustive = true;
    for index in ctx.indices(total_cases) {
        if ctx.replay.is_none() && index % ctx.nshards != ctx.shard {
            continue;
        }
        let comp = &comps[(index as usize) / per_comp];
        // eval contexts are expensive (a compilation per iteration): sample them less often in quick
        let mut rng = Rng::for_case(ctx.seed, "c04", 0, index);
        let shape = 1 + (index as usize % per_comp) % 3;
        let (procs, argcs) = pick_procs(&mut rng, shape);
        let leaf_forms: Vec<usize> = (0..procs.len()).map(|_| if rng.chance(1, 2) { 0 } else { rng.usize(5) }).collect();
        let prog = build(comp, &procs, &argcs, &leaf_forms);
        let has_eval = prog.tags.iter().any(|t| t.starts_with("eval"));
        // (call/cc f) as the recursive step hands every activation the continuation of the previous one: the
        // chain of n continuations is legitimately live and a chain of 10^5 exhausts the native stack in
        // the collector's marker (an open C19 finding, not a tail-call matter): keep such loops at 10^4
        let chains_continuations = prog.tags.iter().any(|t| t == "call/cc-direct");
        let ns_used: Vec<u64> = if chains_continuations {
            vec![10, 1_000, 10_000]
        } else if has_eval {
            // a compilation per iteration: 20000 iterations are as telling as 100000 and five times cheaper
            vec![10, 1_000, 20_000]
        } else {
            ns.to_vec()
        };
        let ok = check_program(&prog, rep, (0, index), verbose, &ns_used);
        for t in &prog.tags {
            rep.see("contexts_and_leaf_forms", t);
        }
        rep.see("arity_pairs", &format!("{}{}->{}{}", procs[0].fixed, if procs[0].rest { "+" } else { "" }, procs[procs.len() - 1].fixed, if procs[procs.len() - 1].rest { "+" } else { "" }));
        rep.see("recursion_shapes", &format!("{}-procedure", procs.len()));
        if ok {
            rep.nontrivial(hash_str(&prog.defs));
            if index % 101 == 7 {
                rep.sample(Json::obj().set("composition", prog.desc.as_str()).set("definitions", prog.defs.as_str()).set("entry", prog.entry.as_str()));
            }
        }
        if verbose {
            println!("{}\n{}", prog.desc, prog.defs);
        }
    }
    // thorough: full arity grid at depth 1 for the plain contexts
    if !ctx.quick() && ctx.replay.is_none() {
        let mut gi: u64 = 0;
        for c in 0..nc {
            for p in 0..5usize {
                for q in 0..5usize {
                    for pr in [false, true] {
                        for qr in [false, true] {
                            gi += 1;
                            if gi % ctx.nshards != ctx.shard {
                                continue;
                            }
                            let procs = vec![Proc { name: "f".into(), fixed: p, rest: pr }, Proc { name: "g".into(), fixed: q, rest: qr }];
                            let argcs = vec![p + if pr { 1 } else { 0 }, q + if qr { 2 } else { 0 }];
                            let prog = build(&[c], &procs, &argcs, &[0, 0]);
                            if check_program(&prog, rep, (0, u64::MAX), false, &ns) {
                                rep.nontrivial(hash_str(&prog.defs));
                            }
                            rep.count("arity_grid_programs", 1);
                        }
                    }
                }
            }
        }
    }
    if verbose {
        for v in &rep.violations {
            println!("VIOLATION {} :: {}", v.sig, v.detail);
        }
    }
}
