//! C20 — the REPL highlighter marks exactly the matching bracket and nothing else.
//!
//! Oracle: an independent partner finder over marwood's own token stream (the property is
//! phrased "in the token stream"). Where the property's wording is loose ("the bracket at or
//! just before the cursor") every reading is accepted, so the monitor never demands more than
//! the statement.
use crate::json::Json;
use crate::mw::catch;
use crate::report::Report;
use crate::rng::{hash_str, Rng};
use crate::Ctx;
use marwood::lex::{self, Token, TokenType};
use marwood::syntax::ReplHighlighter;

const LEXEMES: [&str; 11] = ["(", ")", "[", "]", "#(", "\"", ";", "\n", " ", "a", "#\\("];

fn is_open(t: &Token) -> bool {
    matches!(t.token_type, TokenType::LeftParen | TokenType::HashParen)
}
fn is_close(t: &Token) -> bool {
    matches!(t.token_type, TokenType::RightParen)
}
fn is_bracket(t: &Token) -> bool {
    is_open(t) || is_close(t)
}

/// properly nested partner of bracket token `i`
fn partner(tokens: &[Token], i: usize) -> Option<usize> {
    if is_open(&tokens[i]) {
        let mut depth = 0usize;
        for j in i + 1..tokens.len() {
            if is_open(&tokens[j]) {
                depth += 1;
            } else if is_close(&tokens[j]) {
                if depth == 0 {
                    return Some(j);
                }
                depth -= 1;
            }
        }
        None
    } else {
        let mut depth = 0usize;
        for j in (0..i).rev() {
            if is_close(&tokens[j]) {
                depth += 1;
            } else if is_open(&tokens[j]) {
                if depth == 0 {
                    return Some(j);
                }
                depth -= 1;
            }
        }
        None
    }
}

fn token_at(tokens: &[Token], byte: usize) -> Option<usize> {
    tokens.iter().position(|t| byte >= t.span.0 && byte < t.span.1)
}

fn underline(text: &str, t: &Token) -> String {
    format!("{}\x1b[4m{}\x1b[0m{}", &text[..t.span.0], &text[t.span.0..t.span.1], &text[t.span.1..])
}

/// Set of outputs the property allows for (text, cursor).
fn acceptable(text: &str, tokens: &Option<Vec<Token>>, cursor: usize) -> Vec<String> {
    let mut acc: Vec<String> = vec![];
    let tokens = match tokens {
        Some(t) => t,
        None => return vec![text.to_string()],
    };
    let at = token_at(tokens, cursor);
    let before = if cursor > 0 { token_at(tokens, cursor - 1) } else { None };
    let mut candidates: Vec<usize> = vec![];
    let mut allow_unchanged = false;
    match at {
        Some(i) if is_bracket(&tokens[i]) => {
            candidates.push(i);
            // "at or just before": a distinct bracket immediately before the cursor is an equally
            // valid reading
            if let Some(j) = before {
                if j != i && is_bracket(&tokens[j]) {
                    candidates.push(j);
                }
            }
        }
        Some(_) => {
            // a non-bracket token sits at the cursor; a bracket just before it may or may not count
            allow_unchanged = true;
            if let Some(j) = before {
                if is_bracket(&tokens[j]) {
                    candidates.push(j);
                }
            }
        }
        None => {
            if let Some(j) = before {
                if is_bracket(&tokens[j]) {
                    candidates.push(j);
                }
            }
        }
    }
    if candidates.is_empty() || allow_unchanged {
        acc.push(text.to_string());
    }
    for c in candidates {
        match partner(tokens, c) {
            Some(p) => acc.push(underline(text, &tokens[p])),
            None => acc.push(text.to_string()),
        }
    }
    acc
}

/// may highlight_check be true? Only if a bracket token intersects bytes cursor-2 ..= cursor+1.
fn check_may_be_true(tokens: &Option<Vec<Token>>, cursor: usize) -> bool {
    let tokens = match tokens {
        Some(t) => t,
        None => return false,
    };
    let lo = cursor.saturating_sub(2);
    let hi = cursor + 1;
    tokens.iter().any(|t| is_bracket(t) && t.span.0 <= hi && t.span.1 > lo)
}

struct Outcome {
    highlighted: bool,
}

fn check_one(text: &str, cursor: usize, tokens: &Option<Vec<Token>>, rep: &mut Report, case: (u64, u64)) -> Outcome {
    let h = ReplHighlighter::new();
    check_with(&h, text, cursor, tokens, rep, case)
}

/// the same judgement on a highlighter value that may have been used before (a REPL keeps one)
fn check_with(h: &ReplHighlighter, text: &str, cursor: usize, tokens: &Option<Vec<Token>>, rep: &mut Report, case: (u64, u64)) -> Outcome {
    rep.evaluations += 1;
    let got = catch(|| h.highlight(text, cursor).into_owned());
    let mut highlighted = false;
    match got {
        Err(p) => {
            let sig = format!("highlight:panic:{}", p.file());
            rep.violation(&sig, format!("highlight panicked: {} at {}", p.message, p.location), witness(text, cursor), case);
        }
        Ok(out) => {
            let acc = acceptable(text, tokens, cursor);
            if !acc.iter().any(|a| *a == out) {
                let kind = if out == text {
                    "no-highlight-though-partner-exists"
                } else if acc.len() == 1 && acc[0] == text {
                    "highlight-though-none-expected"
                } else {
                    "wrong-bracket-or-malformed-output"
                };
                let feature = feature_class(text, tokens);
                rep.violation(
                    &format!("highlight:{}:{}", kind, feature),
                    format!("text={:?} cursor={} got={:?} acceptable={:?}", text, cursor, out, acc),
                    witness(text, cursor),
                    case,
                );
            }
            if out != text {
                highlighted = true;
                rep.count("highlighted_outputs", 1);
            }
        }
    }
    let chk = catch(|| h.highlight_check(text, cursor));
    match chk {
        Err(p) => {
            let sig = format!("highlight_check:panic:{}", p.file());
            rep.violation(&sig, format!("highlight_check panicked: {} at {}", p.message, p.location), witness(text, cursor), case);
        }
        Ok(b) => {
            if b {
                rep.count("check_true", 1);
            }
            if b && !check_may_be_true(tokens, cursor) {
                rep.violation(
                    "highlight_check:true-without-bracket-near-cursor",
                    format!("text={:?} cursor={} highlight_check=true but no bracket token within bytes cursor-2..=cursor+1", text, cursor),
                    witness(text, cursor),
                    case,
                );
            }
        }
    }
    Outcome { highlighted }
}

fn feature_class(_text: &str, tokens: &Option<Vec<Token>>) -> String {
    match tokens {
        Some(t) => {
            if t.iter().any(|t| t.token_type == TokenType::HashParen) {
                "with-vector-opener".to_string()
            } else {
                "parens-only".to_string()
            }
        }
        None => "unscannable".to_string(),
    }
}

fn witness(text: &str, cursor: usize) -> Json {
    Json::obj().set("text", text).set("cursor", cursor)
}

fn scan(text: &str) -> Option<Vec<Token>> {
    match catch(|| lex::scan(text)) {
        Ok(Ok(t)) => Some(t),
        _ => None,
    }
}

fn word(mut idx: u64, len: usize) -> String {
    let mut s = String::new();
    for _ in 0..len {
        s.push_str(LEXEMES[(idx % 11) as usize]);
        idx /= 11;
    }
    s
}

fn random_text(rng: &mut Rng) -> String {
    let n = 1 + rng.usize(40);
    let mut s = String::new();
    for _ in 0..n {
        match rng.usize(12) {
            0..=5 => s.push_str(LEXEMES[rng.usize(11)]),
            6 => s.push_str(*rng.pick::<&str>(&["λ", "é", "日本", "𝄞", "\u{200b}", "ß"])),
            7 => s.push_str(*rng.pick::<&str>(&["{", "}", "'", "`", ",", "#t", "#f", "#\\a", "#\\x41", "\"a(b\"", "; (\n", "12", "1.5", ".", "..."])),
            8 => s.push_str(*rng.pick::<&str>(&["(define (f x) ", "(let ((a 1)) ", "#(1 2 ", "'(a . b)", "[x y]"])),
            9 => s.push(char::from_u32(rng.below(0x250) as u32 + 0x20).unwrap_or('x')),
            10 => s.push_str("))"),
            _ => s.push_str("(("),
        }
    }
    s
}

/// A text assembled from pieces whose token structure is known by construction (independent of
/// marwood's lexer): brackets, string literals with escaped quotes and backslashes and brackets
/// inside, comments with quotes and brackets inside, character literals of brackets, atoms.
/// Returns the text and its tokens (only bracket kinds matter; other tokens are Symbol).
fn constructed_text(rng: &mut Rng) -> (String, Vec<Token>) {
    #[derive(PartialEq, Clone, Copy)]
    enum K {
        Open,
        Close,
        Other,
        Blank,
    }
    let n = 2 + rng.usize(12);
    let mut pieces: Vec<(String, K, TokenType)> = vec![];
    for _ in 0..n {
        let (p, k, t): (String, K, TokenType) = match rng.usize(12) {
            0 | 1 | 2 => ((*rng.pick::<&str>(&["(", "(", "[", "{"])).to_string(), K::Open, TokenType::LeftParen),
            3 => ("#(".to_string(), K::Open, TokenType::HashParen),
            4 | 5 | 6 => ((*rng.pick::<&str>(&[")", ")", "]", "}"])).to_string(), K::Close, TokenType::RightParen),
            7 | 8 => {
                let m = rng.usize(5);
                let mut c = String::from("\"");
                for _ in 0..m {
                    c.push_str(*rng.pick::<&str>(&["a", "(", ")", "[", " ", ";", "\\\"", "\\\\", "#(", "x", "\u{3bb}"]));
                }
                c.push('"');
                (c, K::Other, TokenType::String)
            }
            9 => {
                let m = rng.usize(4);
                let mut c = String::from(";");
                for _ in 0..m {
                    c.push_str(*rng.pick::<&str>(&[" x", "(", ")", "\"", "#(", "\\", " "]));
                }
                c.push('\n');
                (c, K::Blank, TokenType::WhiteSpace)
            }
            10 => ((*rng.pick::<&str>(&["#\\(", "#\\)", "#\\a", "#\\[", "#\\space", "#\\;", "#\\\""])).to_string(), K::Other, TokenType::Char),
            _ => ((*rng.pick::<&str>(&["a", "foo", "12", "x-y", "\u{3bb}", "#t"])).to_string(), K::Other, TokenType::Symbol),
        };
        pieces.push((p, k, t));
    }
    let mut text = String::new();
    let mut tokens = vec![];
    let mut prev = K::Blank;
    for (p, k, t) in pieces {
        // a separating space, except (sometimes) next to a bracket where none is needed
        let tight = (prev == K::Open || prev == K::Blank || ((prev == K::Close) && (k == K::Close || k == K::Open)) || (k == K::Close && prev != K::Other) || (k == K::Close && rng.bool())) && !(prev == K::Other && k != K::Close);
        if !(tight && rng.chance(2, 3)) && !text.is_empty() {
            text.push(' ');
        }
        let start = text.len();
        text.push_str(&p);
        if k != K::Blank {
            tokens.push(Token::new((start, text.len()), t));
        }
        prev = k;
    }
    (text, tokens)
}

pub fn run(ctx: &Ctx, rep: &mut Report) {
    if let Some(w) = &ctx.witness {
        let text = w.get("text").and_then(|t| t.as_str()).unwrap_or("").to_string();
        let cursor = w.get("cursor").and_then(|c| c.as_u64()).unwrap_or(0) as usize;
        let tokens = scan(&text);
        check_one(&text, cursor, &tokens, rep, (0, 0));
        let h = ReplHighlighter::new();
        println!("text={:?} cursor={}\n  marwood -> {:?}\n  acceptable = {:?}\n  highlight_check -> {:?} (may be true: {})", text, cursor, catch(|| h.highlight(&text, cursor).into_owned()).ok(), acceptable(&text, &tokens, cursor), catch(|| h.highlight_check(&text, cursor)).ok(), check_may_be_true(&tokens, cursor));
        return;
    }
    // Part 1: exhaustive over words of <= L lexemes with every cursor 0..=len+2
    let max_l: usize = if ctx.quick() { 5 } else { 7 };
    let mut idx_global: u64 = 0;
    let mut strings: u64 = 0;
    if ctx.replay.is_none() {
        for l in 0..=max_l {
            let n = 11u64.pow(l as u32);
            for i in 0..n {
                let gi = idx_global;
                idx_global += 1;
                if gi % ctx.nshards != ctx.shard {
                    continue;
                }
                let text = word(i, l);
                let tokens = scan(&text);
                strings += 1;
                let mut any = false;
                for cursor in 0..=text.len() + 2 {
                    let o = check_one(&text, cursor, &tokens, rep, (ctx.shard, u64::MAX));
                    any |= o.highlighted;
                }
                if any {
                    rep.nontrivial(hash_str(&text));
                    if rep.want_sample() && l >= 3 && (i % 977 == 0) {
                        rep.sample(Json::obj().set("kind", "enumerated").set("text", text.as_str()).set("cursors", text.len() + 3));
                    }
                }
            }
        }
        rep.count("enumerated_strings", strings);
        rep.max("max_lexemes", max_l as u64);
        rep.exhaustive = true;
    }
    // Part 2: random longer Unicode texts, random cursors incl. past the end and mid-character
    let n = ctx.cases(200_000, 4_000_000);
    for index in ctx.indices(n) {
        let mut rng = ctx.rng("c20", index);
        let text = random_text(&mut rng);
        let tokens = scan(&text);
        let mut any = false;
        for _ in 0..4 {
            let cursor = rng.usize(text.len() + 4);
            let o = check_one(&text, cursor, &tokens, rep, (ctx.shard, index));
            any |= o.highlighted;
            if ctx.is_replay() {
                let h = ReplHighlighter::new();
                println!("text={:?} cursor={} -> {:?} acceptable={:?}", text, cursor, catch(|| h.highlight(&text, cursor).into_owned()).ok(), acceptable(&text, &tokens, cursor));
            }
        }
        rep.count("random_texts", 1);
        if any {
            rep.nontrivial(hash_str(&text));
            if rep.want_sample() && index % 5 == 0 {
                rep.sample(Json::obj().set("kind", "random").set("text", text.as_str()));
            }
        }
    }
    // Part 3: texts whose token stream is known by construction, so that "brackets inside strings,
    // character literals and comments are ignored" is judged independently of marwood's lexer
    let n3 = ctx.cases(20_000, 400_000);
    for index in ctx.indices(n3) {
        let mut rng = ctx.rng("c20-constructed", index);
        let (text, toks) = constructed_text(&mut rng);
        // the production lexer must see the same brackets at the same places
        let mine: Vec<(usize, usize)> = toks.iter().filter(|t| is_bracket(t)).map(|t| t.span).collect();
        match scan(&text) {
            Some(theirs) => {
                let theirs: Vec<(usize, usize)> = theirs.iter().filter(|t| is_bracket(t)).map(|t| t.span).collect();
                if mine != theirs {
                    rep.violation(
                        "lexer:bracket-tokens-differ-from-construction",
                        format!("text={:?}: bracket tokens by construction {:?} but the lexer reports {:?}", text, mine, theirs),
                        witness(&text, 0),
                        (ctx.shard, index),
                    );
                    continue;
                }
            }
            None => {
                rep.violation("lexer:constructed-text-does-not-scan", format!("text={:?} is made of well-formed tokens but the lexer rejects it", text), witness(&text, 0), (ctx.shard, index));
                continue;
            }
        }
        let tokens = Some(toks);
        let mut any = false;
        for cursor in 0..=text.len() + 1 {
            let o = check_one(&text, cursor, &tokens, rep, (ctx.shard, index));
            any |= o.highlighted;
        }
        rep.count("constructed_texts", 1);
        if any {
            rep.nontrivial(hash_str(&text));
        }
        // Part 4: the same text typed left to right into ONE highlighter value, the cursor following the
        // end of the input as in a REPL; then the cursor walks back over the finished line. What the
        // highlighter answered before must not influence what it answers now.
        if index % 4 == 0 {
            let h = ReplHighlighter::new();
            let mut ends: Vec<usize> = text.char_indices().map(|(i, _)| i).skip(1).collect();
            ends.push(text.len());
            for e in ends {
                let prefix = &text[..e];
                let toks = scan(prefix);
                check_with(&h, prefix, e, &toks, rep, (ctx.shard, index));
                if e > 0 {
                    check_with(&h, prefix, e - 1, &toks, rep, (ctx.shard, index));
                }
            }
            let toks = scan(&text);
            for cursor in (0..=text.len()).rev() {
                check_with(&h, &text, cursor, &toks, rep, (ctx.shard, index));
            }
            rep.count("typed_sessions", 1);
        }
    }
}
