//! C17 — syntax-rules is sound where supported and always terminates.
//!
//! Transformers are defined with *quoted* templates so that evaluating a use returns the
//! expansion as data; the expansion is compared with the reference of `synrules.rs`. An error from
//! marwood is always acceptable (partial support); a value that differs from the reference, or a
//! value where the reference says "no rule matches" / "invalid definition", is a violation. Cases
//! run in sandboxed child processes so that non-termination is observed, not suffered.
use crate::gen::{int, list, sym};
use crate::json::Json;
use crate::mw::catch;
use crate::report::Report;
use crate::rng::{hash_str, Rng};
use crate::sandbox;
use crate::synrules::{Expansion, Rule, Transformer};
use crate::Ctx;
use marwood::cell::Cell;
use marwood::vm::Vm;
use std::collections::BTreeSet;
use std::time::Duration;

struct PGen<'a> {
    rng: &'a mut Rng,
    ellipsis: String,
    literals: Vec<String>,
    /// (name, ellipsis depth)
    vars: Vec<(String, usize)>,
    features: BTreeSet<&'static str>,
    counter: usize,
}

impl<'a> PGen<'a> {
    fn var(&mut self, depth: usize) -> Cell {
        self.counter += 1;
        // with a custom ellipsis, "..." is an ordinary identifier and may be a pattern variable
        if self.ellipsis != "..." && self.rng.chance(1, 6) && !self.vars.iter().any(|v| v.0 == "...") {
            self.features.insert("pattern:three-dots-as-variable-under-custom-ellipsis");
            self.vars.push(("...".to_string(), depth));
            return sym("...");
        }
        let n = format!("v{}", self.counter);
        self.vars.push((n.clone(), depth));
        sym(&n)
    }

    fn atom_pattern(&mut self, depth: usize) -> Cell {
        match self.rng.usize(10) {
            0 => sym("_"),
            1 if !self.literals.is_empty() => {
                self.features.insert("literal");
                sym(&self.rng.pick(&self.literals).clone())
            }
            2 => {
                self.features.insert("pattern:constant");
                match self.rng.usize(6) {
                    0 => Cell::String((*self.rng.pick(&["s", "a", "2"])).to_string()),
                    1 => Cell::Char('a'),
                    2 => Cell::Bool(self.rng.bool()),
                    _ => int(self.rng.range(0, 3)),
                }
            }
            _ => self.var(depth),
        }
    }

    /// a pattern element at ellipsis depth `depth`, nesting level `level`
    fn pattern(&mut self, depth: usize, level: usize) -> Cell {
        if level >= 3 || self.rng.chance(3, 5) {
            return self.atom_pattern(depth);
        }
        match self.rng.usize(8) {
            0 => {
                self.features.insert("pattern:vector");
                let n = self.rng.usize(3);
                let mut items: Vec<Cell> = (0..n).map(|_| self.pattern(depth, level + 1)).collect();
                if self.rng.chance(1, 3) {
                    items.push(self.pattern(depth + 1, level + 1));
                    items.push(sym(&self.ellipsis));
                }
                Cell::Vector(items)
            }
            1 => {
                self.features.insert("pattern:dotted");
                let n = 1 + self.rng.usize(2);
                let items: Vec<Cell> = (0..n).map(|_| self.pattern(depth, level + 1)).collect();
                let tail = self.var(depth);
                Cell::new_improper_list(items, tail)
            }
            _ => self.seq_pattern(depth, level + 1),
        }
    }

    fn seq_pattern(&mut self, depth: usize, level: usize) -> Cell {
        let n = self.rng.usize(3);
        let mut items: Vec<Cell> = (0..n).map(|_| self.pattern(depth, level)).collect();
        if depth < 2 && self.rng.chance(2, 5) {
            if depth == 1 {
                self.features.insert("pattern:ellipsis-depth-2");
            } else {
                self.features.insert("pattern:ellipsis");
            }
            items.push(self.pattern(depth + 1, level));
            items.push(sym(&self.ellipsis));
            let tail = self.rng.usize(3);
            if tail > 0 {
                self.features.insert("pattern:tail-after-ellipsis");
            }
            for _ in 0..tail {
                items.push(self.atom_pattern(depth));
            }
        }
        list(items)
    }

    // ----- templates -----

    fn template_for(&mut self, want_valid: bool) -> Cell {
        let vars = self.vars.clone();
        let mut parts: Vec<Cell> = vec![];
        let n = 1 + self.rng.usize(4);
        for _ in 0..n {
            let part = self.template_part(&vars, want_valid);
            // half of the (x ...) parts are spliced into the enclosing sequence, so that an ellipsis also
            // occurs at the top level of the template and directly before the dot of a dotted template
            let items: Vec<Cell> = part.iter().cloned().collect();
            let is_ellipsis_pair = part.is_pair() && !part.is_improper_list() && items.len() >= 2 && matches!(&items[1], Cell::Symbol(s) if *s == self.ellipsis);
            if is_ellipsis_pair && self.rng.bool() {
                self.features.insert("template:ellipsis-at-top-level");
                parts.extend(items);
            } else {
                parts.push(part);
            }
        }
        match self.rng.usize(10) {
            0 => {
                self.features.insert("template:vector");
                Cell::Vector(parts)
            }
            1 if !vars.is_empty() => {
                self.features.insert("template:dotted");
                let tailv: Vec<&(String, usize)> = vars.iter().filter(|v| v.1 == 0).collect();
                let tail = if tailv.is_empty() { sym("end") } else { sym(&self.rng.pick(&tailv).0.clone()) };
                Cell::new_improper_list(parts, tail)
            }
            _ => list(parts),
        }
    }

    fn template_part(&mut self, vars: &[(String, usize)], want_valid: bool) -> Cell {
        if vars.is_empty() || self.rng.chance(1, 5) {
            return match self.rng.usize(3) {
                0 => int(self.rng.range(0, 9)),
                1 => sym(*self.rng.pick(&["k", "tag", "x"])),
                _ => list(vec![sym("q"), int(1)]),
            };
        }
        let (name, d) = self.rng.pick(vars).clone();
        if !want_valid && self.rng.chance(1, 2) {
            // deliberately invalid: wrong number of ellipses
            return match self.rng.usize(3) {
                0 if d > 0 => {
                    self.features.insert("invalid:variable-without-enough-ellipses");
                    sym(&name)
                }
                1 => {
                    self.features.insert("invalid:ellipsis-after-constant");
                    list(vec![sym("k"), sym(&self.ellipsis)])
                }
                _ if d == 0 => {
                    self.features.insert("invalid:ellipsis-after-non-ellipsis-variable");
                    list(vec![sym(&name), sym(&self.ellipsis)])
                }
                _ => {
                    self.features.insert("invalid:too-many-ellipses");
                    let mut v = vec![sym(&name)];
                    for _ in 0..d + 1 {
                        v.push(sym(&self.ellipsis));
                    }
                    list(v)
                }
            };
        }
        match d {
            0 => match self.rng.usize(4) {
                0 => list(vec![sym("w"), sym(&name)]),
                1 => {
                    self.features.insert("template:variable-twice");
                    list(vec![sym(&name), sym(&name)])
                }
                _ => sym(&name),
            },
            1 => match self.rng.usize(9) {
                7 | 8 => {
                    // two different depth-1 variables under one ellipsis (they iterate together; if they
                    // come from different ellipses of the pattern their lengths must agree)
                    let others: Vec<&(String, usize)> = vars.iter().filter(|v| v.1 == 1 && v.0 != name).collect();
                    if others.is_empty() {
                        self.features.insert("template:ellipsis");
                        list(vec![sym(&name), sym(&self.ellipsis)])
                    } else {
                        self.features.insert("template:two-variables-under-ellipsis");
                        let o = self.rng.pick(&others).0.clone();
                        if self.rng.bool() {
                            list(vec![list(vec![sym(&name), sym(&o)]), sym(&self.ellipsis)])
                        } else {
                            list(vec![list(vec![sym(&o), sym("t"), sym(&name)]), sym(&self.ellipsis)])
                        }
                    }
                }
                0 => {
                    self.features.insert("template:ellipsis");
                    list(vec![sym(&name), sym(&self.ellipsis)])
                }
                1 => {
                    self.features.insert("template:subtemplate-under-ellipsis");
                    list(vec![list(vec![sym("p"), sym(&name)]), sym(&self.ellipsis)])
                }
                2 => {
                    self.features.insert("template:variable-twice-under-ellipsis");
                    list(vec![list(vec![sym(&name), sym(&name)]), sym(&self.ellipsis)])
                }
                3 => {
                    self.features.insert("template:two-ellipsis-uses-of-one-variable");
                    list(vec![sym(&name), sym(&self.ellipsis), sym("mid"), sym(&name), sym(&self.ellipsis)])
                }
                4 => {
                    // a depth-0 variable repeated under the ellipsis
                    let zero: Vec<&(String, usize)> = vars.iter().filter(|v| v.1 == 0).collect();
                    if zero.is_empty() {
                        list(vec![sym(&name), sym(&self.ellipsis)])
                    } else {
                        self.features.insert("template:depth-0-variable-under-ellipsis");
                        let z = self.rng.pick(&zero).0.clone();
                        list(vec![list(vec![sym(&z), sym(&name)]), sym(&self.ellipsis)])
                    }
                }
                5 => {
                    self.features.insert("template:ellipsis-with-tail");
                    list(vec![sym(&name), sym(&self.ellipsis), sym("end")])
                }
                _ => {
                    self.features.insert("template:vector-under-ellipsis");
                    list(vec![Cell::Vector(vec![sym(&name)]), sym(&self.ellipsis)])
                }
            },
            _ => match self.rng.usize(3) {
                0 => {
                    self.features.insert("template:nested-ellipsis");
                    list(vec![list(vec![sym(&name), sym(&self.ellipsis)]), sym(&self.ellipsis)])
                }
                1 => {
                    self.features.insert("template:consecutive-ellipses");
                    list(vec![sym(&name), sym(&self.ellipsis), sym(&self.ellipsis)])
                }
                _ => {
                    self.features.insert("template:nested-ellipsis");
                    list(vec![list(vec![sym("g"), sym(&name), sym(&self.ellipsis)]), sym(&self.ellipsis)])
                }
            },
        }
    }
}

fn datum(rng: &mut Rng, level: usize) -> Cell {
    // one datum in twelve is a list headed by a keyword (a prelude macro, a special form, the macro under
    // test): inside the quoted expansion it is data and must come back untouched
    if rng.chance(1, 12) {
        let forms = crate::engines::c05::parse_forms(*rng.pick(&[
            "(and 1 2)", "(or)", "(when a b)", "(unless a 1 2)", "(let ((a 1)) a)", "(let* () 1)", "(cond (a b) (else c))", "(case 1 ((1) a))", "(m 1)", "(m)", "(begin)", "(if a b)",
            "(lambda (a) a)", "(quote a)", "(do ((i 0 (+ i 1))) ((= i 1) i))", "(delay 1)", "(define-syntax q (syntax-rules ()))", "(quasiquote (a (unquote b)))",
        ]));
        if let Some(f) = forms.into_iter().next() {
            return f;
        }
    }
    match rng.usize(if level >= 2 { 4 } else { 7 }) {
        0 | 1 => int(rng.range(0, 50)),
        2 => sym(*rng.pick(&["a", "b", "c", "d"])),
        3 => Cell::String("s".into()),
        4 => {
            let n = rng.usize(3);
            list((0..n).map(|_| datum(rng, level + 1)).collect())
        }
        5 => Cell::Vector(vec![datum(rng, level + 1)]),
        _ => Cell::Bool(rng.bool()),
    }
}

/// a form generated from the pattern (matching, possibly with mismatched ellipsis lengths)
fn form_from(t: &Transformer, p: &Cell, rng: &mut Rng) -> Cell {
    let is_e = |c: &Cell| matches!(c, Cell::Symbol(s) if *s == t.ellipsis);
    match p {
        Cell::Symbol(s) => {
            if t.literals.iter().any(|l| l == s) {
                p.clone()
            } else {
                datum(rng, 0)
            }
        }
        Cell::Pair(_, _) => {
            let mut items: Vec<&Cell> = vec![];
            let mut cur = p;
            while let Cell::Pair(a, b) = cur {
                items.push(a);
                cur = b;
            }
            let mut out = seq_from(t, &items, rng, &is_e);
            if cur.is_nil() {
                list(out)
            } else {
                // dotted: sometimes extra elements, proper or improper tail
                match rng.usize(3) {
                    0 => Cell::new_improper_list(out, int(7)),
                    1 => {
                        out.push(datum(rng, 1));
                        out.push(datum(rng, 1));
                        list(out)
                    }
                    _ => list(out),
                }
            }
        }
        Cell::Vector(v) => {
            let items: Vec<&Cell> = v.iter().collect();
            Cell::Vector(seq_from(t, &items, rng, &is_e))
        }
        // at the position of a pattern datum: the datum itself, or (one time in four) a look-alike of
        // another type that is displayed the same way and must NOT match
        other if rng.chance(1, 4) => match other {
            Cell::String(x) => match rng.usize(3) {
                0 => sym(x),
                1 if x.chars().count() == 1 => Cell::Char(x.chars().next().unwrap()),
                _ => match x.parse::<i64>() {
                    Ok(n) => int(n),
                    Err(_) => sym(x),
                },
            },
            Cell::Char(c) => {
                if rng.bool() {
                    sym(&c.to_string())
                } else {
                    Cell::String(c.to_string())
                }
            }
            Cell::Number(n) => match rng.usize(3) {
                0 => Cell::String(format!("{}", n)),
                1 => Cell::Number(marwood::number::Number::Float(format!("{}", n).parse::<f64>().unwrap_or(0.0))),
                _ => other.clone(),
            },
            Cell::Bool(b) => {
                if *b {
                    sym("#t-ish")
                } else {
                    Cell::Nil
                }
            }
            _ => other.clone(),
        },
        other => other.clone(),
    }
}

fn seq_from(t: &Transformer, items: &[&Cell], rng: &mut Rng, is_e: &dyn Fn(&Cell) -> bool) -> Vec<Cell> {
    let mut out = vec![];
    let mut i = 0;
    while i < items.len() {
        if i + 1 < items.len() && is_e(items[i + 1]) {
            let reps = rng.usize(4);
            for _ in 0..reps {
                out.push(form_from(t, items[i], rng));
            }
            i += 2;
        } else {
            out.push(form_from(t, items[i], rng));
            i += 1;
        }
    }
    out
}

fn mutate_form(f: &Cell, rng: &mut Rng) -> Cell {
    let mut items: Vec<Cell> = f.iter().cloned().collect();
    if items.len() <= 1 {
        items.push(int(1));
        return list(items);
    }
    match rng.usize(4) {
        0 => {
            let i = 1 + rng.usize(items.len() - 1);
            items.remove(i);
        }
        1 => items.push(datum(rng, 0)),
        2 => {
            let i = 1 + rng.usize(items.len() - 1);
            items[i] = datum(rng, 0);
        }
        _ => {
            let i = 1 + rng.usize(items.len() - 1);
            items[i] = list(vec![items[i].clone()]);
        }
    }
    list(items)
}

pub struct Case {
    pub t: Transformer,
    pub define: Cell,
    pub uses: Vec<Cell>,
    pub features: Vec<&'static str>,
    /// features of each rule separately (for signatures)
    pub rule_features: Vec<Vec<&'static str>>,
}

pub fn gen_case(rng: &mut Rng) -> Case {
    let custom = rng.chance(1, 6);
    let ellipsis = if custom { ":::".to_string() } else { "...".to_string() };
    let literals: Vec<String> = match rng.usize(3) {
        0 => vec![],
        1 => vec!["to".into()],
        _ => vec!["to".into(), "by".into()],
    };
    let nrules = 1 + rng.usize(3);
    let mut rules = vec![];
    let mut features: BTreeSet<&'static str> = BTreeSet::new();
    if custom {
        features.insert("custom-ellipsis");
    }
    if nrules > 1 {
        features.insert("several-rules");
    }
    let want_valid = !rng.chance(1, 8);
    let mut rule_features: Vec<Vec<&'static str>> = vec![];
    for _ in 0..nrules {
        let mut g = PGen { rng, ellipsis: ellipsis.clone(), literals: literals.clone(), vars: vec![], features: BTreeSet::new(), counter: 0 };
        let body = g.seq_pattern(0, 0);
        let pattern = Cell::new_pair(sym("_"), body);
        let template = g.template_for(want_valid);
        features.extend(g.features.iter());
        let mut rf: Vec<&'static str> = g.features.iter().cloned().collect();
        if custom {
            rf.push("custom-ellipsis");
        }
        rule_features.push(rf);
        rules.push(Rule { pattern, template });
    }
    let t = Transformer { ellipsis: ellipsis.clone(), literals: literals.clone(), rules: rules.clone() };
    // (define-syntax m (syntax-rules [ellipsis] (literals…) (pattern 'template)…))
    let mut sr = vec![sym("syntax-rules")];
    if custom {
        sr.push(sym(&ellipsis));
    }
    sr.push(list(literals.iter().map(|l| sym(l)).collect()));
    for r in &rules {
        sr.push(list(vec![r.pattern.clone(), list(vec![sym("quote"), r.template.clone()])]));
    }
    let define = list(vec![sym("define-syntax"), sym("m"), list(sr)]);
    // uses: matching ones generated from each rule's pattern, and mutations
    let mut uses = vec![];
    for r in &rules {
        for _ in 0..2 {
            let f = form_from(&t, &r.pattern, rng);
            // replace the keyword position by the macro name
            let mut items: Vec<Cell> = f.iter().cloned().collect();
            if items.is_empty() {
                continue;
            }
            items[0] = sym("m");
            let tail_improper = f.is_improper_list();
            let f = if tail_improper { f.clone() } else { list(items) };
            if tail_improper {
                continue;
            }
            if rng.chance(1, 4) {
                uses.push(mutate_form(&f, rng));
            }
            uses.push(f);
        }
    }
    Case { t, define, uses, features: features.into_iter().collect(), rule_features }
}

/// the reference's view of a use, given that marwood's define-syntax quotes the templates
fn reference(t: &Transformer, use_form: &Cell) -> Expansion {
    t.expand(use_form)
}

const PRIORITY: [&str; 28] = [
    "invalid:ellipsis-after-non-ellipsis-variable",
    "invalid:ellipsis-after-constant",
    "invalid:variable-without-enough-ellipses",
    "invalid:too-many-ellipses",
    "template:vector",
    "template:vector-under-ellipsis",
    "pattern:vector",
    "template:dotted",
    "pattern:dotted",
    "template:nested-ellipsis",
    "template:consecutive-ellipses",
    "pattern:ellipsis-depth-2",
    "template:variable-twice-under-ellipsis",
    "template:two-ellipsis-uses-of-one-variable",
    "template:depth-0-variable-under-ellipsis",
    "template:two-variables-under-ellipsis",
    "template:subtemplate-under-ellipsis",
    "template:ellipsis-with-tail",
    "pattern:tail-after-ellipsis",
    "template:ellipsis-at-top-level",
    "template:ellipsis",
    "pattern:ellipsis",
    "template:variable-twice",
    "pattern:three-dots-as-variable-under-custom-ellipsis",
    "pattern:constant",
    "custom-ellipsis",
    "literal",
    "several-rules",
];

fn primary_with(features: &[&'static str], prefix: &str) -> &'static str {
    for p in PRIORITY {
        if p.starts_with(prefix) && features.contains(&p) {
            return p;
        }
    }
    "plain"
}

fn primary(features: &[&'static str]) -> &'static str {
    for p in PRIORITY {
        if features.contains(&p) {
            return p;
        }
    }
    "plain"
}

fn run_one(c: &Case, rep: &mut Report, id: (u64, u64), verbose: bool) {
    rep.evaluations += 1;
    let mut vm = Vm::new();
    let prim = primary(&c.features);
    let wit = |u: Option<&Cell>| {
        Json::obj()
            .set("define", format!("{:#}", c.define))
            .set("use", u.map(|u| format!("{:#}", u)).unwrap_or_default())
            .set("features", Json::Arr(c.features.iter().map(|f| Json::Str(f.to_string())).collect()))
    };
    let valid = c.t.validate();
    let def = catch(|| match vm.prepare_eval(&c.define) {
        Ok(()) => vm.run_count(2_000_000).map(|o| o.is_some()),
        Err(e) => Err(e),
    });
    if verbose {
        println!("define: {:#}\n  reference validity: {:?}\n  marwood: {:?}", c.define, valid, def.as_ref().map(|r| r.as_ref().map_err(|e| e.to_string())));
    }
    match def {
        Err(p) => {
            rep.violation(&format!("{}:definition-panics:{}", prim, p.file()), format!("define-syntax panicked: {} at {}", p.message, p.location), wit(None), id);
            return;
        }
        Ok(Err(_)) => {
            // rejecting a definition is always allowed
            rep.count("definitions_rejected", 1);
            if valid.is_ok() {
                rep.count("valid_definitions_rejected", 1);
            }
            return;
        }
        Ok(Ok(_)) => rep.count("definitions_accepted", 1),
    }
    let mut compared = 0;
    for u in &c.uses {
        let r = reference(&c.t, u);
        let got = catch(|| match vm.prepare_eval(u) {
            Ok(()) => match vm.run_count(2_000_000) {
                Ok(Some(c)) => Ok(Some(c)),
                Ok(None) => Ok(None),
                Err(e) => Err(e),
            },
            Err(e) => Err(e),
        });
        if verbose {
            println!("use: {:#}\n  reference: {:?}\n  marwood: {:?}", u, r, got.as_ref().map(|r| r.as_ref().map(|c| c.as_ref().map(|c| format!("{:#}", c))).map_err(|e| e.to_string())));
        }
        rep.count("uses", 1);
        match got {
            Err(p) => {
                rep.violation(&format!("{}:use-panics:{}", prim, p.file()), format!("use {:#} panicked: {} at {}", u, p.message, p.location), wit(Some(u)), id);
                return;
            }
            Ok(Ok(None)) => {
                rep.violation(&format!("{}:use-exceeds-instruction-budget", prim), format!("use {:#} did not finish within 2*10^6 instructions", u), wit(Some(u)), id);
                return;
            }
            Ok(Err(_)) => {
                rep.count("uses_rejected", 1);
                if let Expansion::Expanded(..) = r {
                    rep.count("matching_uses_rejected", 1);
                }
            }
            Ok(Ok(Some(val))) => match &r {
                Expansion::LengthMismatch => rep.count("excluded_length_mismatch", 1),
                Expansion::Expanded(ri, exp) => {
                    compared += 1;
                    rep.count("expansions_compared", 1);
                    if !crate::engines::c10::strict_eq(exp, &val) {
                        // Attribution: feature classes known to be unsupported by the matcher (BP) and by the
                        // instantiator (BT) are signed by that class alone; anything else is signed with full
                        // precision, so that a new way of mis-expanding is a new signature.
                        const BP: [&str; 3] = ["pattern:dotted", "pattern:ellipsis-depth-2", "pattern:tail-after-ellipsis"];
                        const BT: [&str; 3] = ["template:variable-twice-under-ellipsis", "template:nested-ellipsis", "template:consecutive-ellipses"];
                        let rf = &c.rule_features[*ri];
                        let prim = if let Some(p) = BP.iter().find(|p| rf.contains(p)) {
                            format!("P={}", p)
                        } else if let Some(t) = BT.iter().find(|t| rf.contains(t)) {
                            format!("T={}", t)
                        } else {
                            format!("T={},P={}", primary_with(rf, "template:"), primary_with(rf, "pattern:"))
                        };
                        rep.violation(
                            &format!("{}:mis-expansion", prim),
                            format!("{:#} with {:#} expands to {:#} but R7RS prescribes {:#}", c.define, u, val, exp),
                            wit(Some(u)),
                            id,
                        );
                        return;
                    }
                }
                Expansion::NoMatch => {
                    rep.violation(&format!("{}:value-though-no-rule-matches", prim), format!("{:#} with {:#}: no rule matches, but marwood returned {:#}", c.define, u, val), wit(Some(u)), id);
                    return;
                }
                Expansion::InvalidDefinition(why) => {
                    // sign with the invalid rule's own features
                    let ri: usize = why.strip_prefix("rule ").and_then(|w| w.split(':').next()).and_then(|n| n.parse().ok()).unwrap_or(0);
                    let prim = primary(&c.rule_features[ri.min(c.rule_features.len() - 1)]);
                    rep.violation(&format!("{}:value-though-definition-invalid", prim), format!("{:#} is invalid ({}), but the use {:#} returned {:#}", c.define, why, u, val), wit(Some(u)), id);
                    return;
                }
            },
        }
    }
    if compared > 0 {
        rep.nontrivial(hash_str(&format!("{:#}", c.define)));
        for f in &c.features {
            rep.see("features", f);
        }
    }
}

pub fn run(ctx: &Ctx, rep: &mut Report) {
    let verbose = ctx.is_replay() || std::env::var("MWV_VERBOSE").is_ok();
    let total = ctx.cases(30_000, 500_000);
    if ctx.replay.is_some() || sandbox::child_range(ctx).is_some() {
        let (s, e) = match ctx.replay {
            Some(i) => (i, i + 1),
            None => sandbox::child_range(ctx).unwrap(),
        };
        for index in s..e {
            if ctx.replay.is_none() {
                sandbox::journal_begin(index);
            }
            let mut rng = ctx.rng("c17", index);
            let c = gen_case(&mut rng);
            run_one(&c, rep, (ctx.shard, index), verbose);
            if rep.want_sample() && index % 997 == 5 {
                rep.sample(Json::obj().set("define", format!("{:#}", c.define)).set("uses", Json::Arr(c.uses.iter().map(|u| Json::Str(format!("{:#}", u))).collect())));
            }
        }
        if verbose {
            for v in &rep.violations {
                println!("VIOLATION {} :: {}", v.sig, v.detail);
            }
        }
        return;
    }
    let cfg = sandbox::DriveCfg { segment: 5_000, idle: Duration::from_secs(10), limits: sandbox::Limits { stack_kib: Some(8192), as_kib: Some(2 << 20) }, extra: None };
    let culprits = sandbox::drive(ctx, "c17", total, &cfg, rep);
    for cu in culprits {
        if cu.confirmed {
            let mut rng = ctx.rng("c17", cu.index);
            let c = gen_case(&mut rng);
            let kind = sandbox::death_kind(&cu.exit, &cu.stderr_tail);
            rep.violation(
                &format!("{}:{}", primary(&c.features), if kind == "hang" || kind == "alloc-failure-abort" { "does-not-terminate".to_string() } else { kind.clone() }),
                format!("{:#} with uses {:?} kills or hangs the process ({})", c.define, c.uses.iter().map(|u| format!("{:#}", u)).collect::<Vec<_>>(), kind),
                Json::obj().set("define", format!("{:#}", c.define)).set("features", Json::Arr(c.features.iter().map(|f| Json::Str(f.to_string())).collect())),
                (ctx.shard, cu.index),
            );
        }
    }
}
