//! C07 — a failed evaluation leaves no trace beyond its completed effects.
//!
//! Fault enumeration with twin VMs. A session consists of definitions, then one or more failing
//! forms of the shape "explicit effects, then a context containing the failure", then probe forms.
//! The twin VM receives the same session with every failing form replaced by its completed
//! effects only. Monitors: (a) every later form has the same outcome in both VMs; (b) a later
//! failure has the same stack trace in both; (c) the stack pointer is back at its pre-evaluation
//! value after every evaluation (hook); (d) stack capacity and live heap after a forced collection
//! do not grow with the number of consecutive failures (k = 10 vs k = 1000).
use crate::diff::{run_form, show_outcome, MwForm, MwOutcome, MwVm};
use crate::engines::c05::parse_forms;
use crate::gen::{self, count_literals, replace_nth_literal, Opts};
use crate::json::Json;
use crate::mw::catch;
use crate::report::Report;
use crate::rng::{hash_str, Rng};
use crate::Ctx;
use marwood::cell::Cell;

fn trace_of(m: &MwVm) -> Option<Vec<String>> {
    m.vm.last_stacktrace().map(|t| t.frames.iter().map(|f| format!("{}|{}", f.name.clone().unwrap_or_default(), f.desc.as_ref().map(|d| format!("{:#}", d)).unwrap_or_default())).collect())
}

#[derive(Clone)]
pub struct Step {
    /// evaluated in the main VM
    pub main: Vec<Item>,
    /// evaluated in the twin VM
    pub twin: Vec<Item>,
    /// compared between the two VMs (index into main / twin)
    pub compare: bool,
    pub label: &'static str,
}

#[derive(Clone)]
pub enum Item {
    Form(Cell),
    /// source text handed to eval_text (for read errors)
    Text(String),
}

pub struct Case {
    pub steps: Vec<Step>,
    pub tags: Vec<String>,
    /// the main VM (the one that sees the failures) is driven in slices of this many instructions
    pub main_slice: Option<usize>,
}

fn effects(rng: &mut Rng, gvars: &[String]) -> Vec<Cell> {
    let n = rng.usize(3);
    let mut v = vec![];
    for _ in 0..n {
        if gvars.is_empty() {
            break;
        }
        let g = rng.pick(gvars).clone();
        v.push(gen::list(vec![gen::sym("set!"), gen::sym(&g), gen::int(rng.range(-50, 50))]));
    }
    v
}

const KINDS: [&str; 7] = ["unbound-variable", "wrong-type", "wrong-arity", "user-error", "not-a-procedure", "bad-syntax", "primitive-rejects-arguments"];

/// calls of mutating primitives on the helper globals vec7 (4 elements), str7 (4 characters), lst7 (3
/// elements) that must be rejected; a rejected call must leave its target as it was
const REJECTED_MUTATIONS: [&str; 10] = [
    "(vector-copy! vec7 2 (vector 'a 'b 'c))",
    "(vector-copy! vec7 3 vec7 0 4)",
    "(vector-copy! vec7 0 (vector 'a 'b) 1 5)",
    "(vector-fill! vec7 'z 2 9)",
    "(vector-set! vec7 4 'q)",
    "(string-fill! str7 #\\z 2 9)",
    "(string-set! str7 4 #\\q)",
    "(set-car! (cdr (cdr (cdr lst7))) 'x)",
    "(vector-fill! vec7 'z 3 1)",
    "(string-fill! str7 #\\z 3 1)",
];

fn failing_expr(kind: usize, rng: &mut Rng) -> Cell {
    match kind % 7 {
        6 => parse_forms(*rng.pick(&REJECTED_MUTATIONS)).remove(0),
        // an unbound name referenced directly, or by a procedure compiled earlier (fwd7 calls later7, which
        // is only defined after the failures)
        0 if rng.bool() => gen::call("fwd7", vec![gen::int(3)]),
        0 => gen::sym(&format!("nope{}", rng.below(1000))),
        1 => gen::call("car", vec![gen::int(5)]),
        2 => gen::list(vec![gen::list(vec![gen::sym("lambda"), gen::list(vec![gen::sym("z")]), gen::sym("z")])]),
        3 => gen::call("error", vec![gen::quote(gen::sym("boom")), gen::int(rng.range(0, 9)), Cell::String("msg".into())]),
        4 => gen::list(vec![gen::int(5), gen::int(3)]),
        _ => gen::list(vec![gen::sym("if")]),
    }
}

/// Build one case from a seeded base session.
pub fn build_case(rng: &mut Rng, index: u64) -> Case {
    let opts = Opts { output: false, no_global_effects: true, callcc: false, ..Opts::default() };
    let mut tags = vec![];
    // base definitions
    let mut g = gen::Gen::new(rng, opts);
    let mut defs: Vec<Cell> = vec![];
    let nd = 2 + g.rng.usize(3);
    for _ in 0..nd {
        defs.push(g.define_data());
    }
    for _ in 0..(1 + g.rng.usize(3)) {
        defs.push(g.define_proc(None));
    }
    let gvars: Vec<String> = g.globals.vars.iter().filter(|v| v.ty == gen::Ty::Int).map(|v| v.name.clone()).collect();
    let all_gvars: Vec<String> = g.globals.vars.iter().map(|v| v.name.clone()).collect();
    let procs = g.globals.procs.clone();
    // a pure expression to inject into
    let pure_expr = g.expr_form();
    let probe_exprs: Vec<Cell> = (0..2).map(|_| g.expr_form()).collect();
    let rng = g.rng;
    let kind = (index % 7) as usize;
    tags.push(format!("kind:{}", KINDS[kind]));
    let shape = (index / 7) % 6;
    let fail = failing_expr(kind, rng);
    let mut steps: Vec<Step> = vec![];
    let helper = parse_forms(
        "(define (deep7 n th) (if (= n 0) (th) (+ 1 (deep7 (- n 1) th))))
         (define kk7 #f)
         (define (probe-fail7 n) (if (= n 0) (car 'probe) (+ 1 (probe-fail7 (- n 1)))))
         (define (fwd7 x) (later7 (+ x 1)))
         (define vec7 (vector 1 2 3 4)) (define str7 (make-string 4 #\\a)) (define lst7 (list 1 2 3))",
    );
    for d in defs.iter().chain(helper.iter()) {
        steps.push(Step { main: vec![Item::Form(d.clone())], twin: vec![Item::Form(d.clone())], compare: true, label: "definition" });
    }
    // a continuation captured under `kd` pending frames by a successful evaluation before the failures;
    // it is re-entered after them (last probes): the failures must not have damaged what it needs
    let kd = *rng.pick(&[0i64, 3, 20, 41, 42, 43, 44, 45, 60, 100, 180]) + rng.range(0, 2);
    tags.push(format!("stored-continuation-depth:{}", if kd < 40 { "<40" } else if kd < 50 { "40-49" } else { ">=50" }));
    for d in parse_forms(&format!(
        "(define kd7 #f) (define kdn7 0)
         (define (deepk7 n) (if (= n 0) (call/cc (lambda (k) (set! kd7 k) 0)) (+ 1 (deepk7 (- n 1)))))
         (define rd7 (deepk7 {}))",
        kd
    )) {
        steps.push(Step { main: vec![Item::Form(d.clone())], twin: vec![Item::Form(d.clone())], compare: true, label: "definition" });
    }
    let k_fail = match (index / 42) % 4 {
        0 => 1,
        1 => 2,
        2 => 10,
        _ => 3,
    };
    tags.push(format!("consecutive-failures:{}", k_fail));
    for _ in 0..k_fail {
        let eff = effects(rng, &gvars);
        let thunk = |body: Cell| gen::list(vec![gen::sym("lambda"), Cell::Nil, body]);
        let (failing_tail, compile_time): (Vec<Cell>, bool) = match shape {
            0 => {
                tags.push("shape:injected-into-generated-expression".into());
                let total = count_literals(&pure_expr, false);
                if total == 0 {
                    (vec![fail.clone()], kind == 5)
                } else {
                    let mut k = rng.below(total as u64) as i64;
                    (vec![replace_nth_literal(&pure_expr, &mut k, &fail, false)], kind == 5)
                }
            }
            1 => {
                let d = rng.range(0, 6);
                tags.push(format!("shape:call-depth-{}", d));
                (vec![gen::call("deep7", vec![gen::int(d), thunk(fail.clone())])], kind == 5)
            }
            2 => {
                let d = rng.range(0, 6);
                tags.push("shape:inside-call/cc-extent".into());
                (vec![gen::call("+", vec![gen::int(1), gen::call("call/cc", vec![gen::list(vec![gen::sym("lambda"), gen::list(vec![gen::sym("k")]), gen::call("deep7", vec![gen::int(d), thunk(fail.clone())])])])])], kind == 5)
            }
            3 => {
                tags.push("shape:after-invoking-a-stored-continuation".into());
                // first a form that stores a continuation whose rest-of-computation fails when re-entered with 'again
                let store = parse_forms("(define r7 (let ((v (call/cc (lambda (k) (set! kk7 k) 'first)))) (if (eq? v 'again) (FAIL) v)))");
                // (a syntax error cannot be deferred to re-entry: use a run-time kind for this shape)
                let fail3 = if kind == 5 { failing_expr(1, rng) } else { fail.clone() };
                let store = subst(&store[0], &fail3);
                steps.push(Step { main: vec![Item::Form(store.clone())], twin: vec![Item::Form(store)], compare: true, label: "continuation-store" });
                (vec![gen::call("kk7", vec![gen::quote(gen::sym("again"))])], false)
            }
            4 => {
                tags.push("shape:failure-inside-procedure-argument".into());
                let p = procs.iter().find(|p| p.fixed >= 1).cloned();
                match p {
                    Some(p) => {
                        let mut args: Vec<Cell> = (0..p.fixed).map(|i| gen::int(i as i64)).collect();
                        args[0] = fail.clone();
                        (vec![gen::call(&p.name, args)], kind == 5)
                    }
                    None => (vec![gen::call("+", vec![gen::int(1), fail.clone()])], kind == 5),
                }
            }
            _ => {
                tags.push("shape:read-error".into());
                (vec![], false)
            }
        };
        if shape == 5 {
            // a read error: incomplete or malformed text; nothing is evaluated at all
            let bad = *rng.pick(&["(+ 1 (car '(2))", "(list 1 2 . )", "#<oops>", ")", "(define zz7 \"unterminated)"]);
            steps.push(Step { main: vec![Item::Text(bad.to_string())], twin: vec![], compare: false, label: "failing-form" });
            continue;
        }
        // one time in three the failing form also defines a keyword before it fails: a completed effect
        // if the failure happens at run time, no effect at all if the form is rejected by the compiler
        let mut eff = eff;
        if rng.chance(1, 3) {
            let name = match procs.first() {
                Some(p) if rng.bool() => p.name.clone(),
                _ => "mac7".to_string(),
            };
            tags.push("failing-form-defines-a-keyword".into());
            eff.push(parse_forms(&format!("(define-syntax {} (syntax-rules () ((_ x ...) 'macro7)))", name)).remove(0));
        }
        let mut main_form = vec![gen::sym("begin")];
        main_form.extend(eff.iter().cloned());
        main_form.extend(failing_tail);
        let main_form = gen::list(main_form);
        let twin_items: Vec<Item> = if compile_time {
            // a syntax error is detected before anything runs: no effect at all
            vec![]
        } else {
            eff.iter().map(|e| Item::Form(e.clone())).collect()
        };
        steps.push(Step { main: vec![Item::Form(main_form)], twin: twin_items, compare: false, label: "failing-form" });
    }
    // probes: state, procedures, a later failure (for its stack trace), ordinary expressions
    // directly after the failures: a form the compiler rejects and a text the reader rejects; their
    // failure and the stack trace reported with it (none) must not depend on what failed before
    let early = if rng.bool() { Item::Form(parse_forms("(if)").remove(0)) } else { Item::Text((*rng.pick(&[")", "(car '(1)", "#<oops>"])).to_string()) };
    steps.push(Step { main: vec![early.clone()], twin: vec![early], compare: true, label: "probe" });
    let state_probe = gen::call("list", all_gvars.iter().map(|g| gen::sym(g)).collect());
    let mut probes = vec![state_probe];
    for p in &procs {
        let args: Vec<Cell> = (0..p.fixed).map(|i| gen::int(i as i64 + 1)).collect();
        if p.ret == gen::Ty::Int {
            probes.push(gen::call(&p.name, args));
        }
    }
    probes.push(gen::call("probe-fail7", vec![gen::int(3)]));
    probes.extend(probe_exprs);
    probes.push(gen::call("probe-fail7", vec![gen::int(0)]));
    probes.extend(parse_forms("(list vec7 str7 lst7) (mac7 1 2) (define (later7 y) (* y 10)) (fwd7 1) (fwd7 2)"));
    probes.extend(parse_forms("(if (< kdn7 1) (begin (set! kdn7 (+ kdn7 1)) (kd7 500)) 'spent) (list rd7 kdn7) (+ 1 (if (< kdn7 2) (begin (set! kdn7 (+ kdn7 1)) (kd7 7)) 0)) (list rd7 kdn7)"));
    for p in probes {
        steps.push(Step { main: vec![Item::Form(p.clone())], twin: vec![Item::Form(p)], compare: true, label: "probe" });
    }
    // one case in four drives the main VM the way a cooperative embedder does: prepare_eval + run_count(b)
    let main_slice = if rng.chance(1, 4) { Some(*rng.pick(&[1usize, 2, 5, 17, 100, 1000])) } else { None };
    if let Some(b) = main_slice {
        tags.push(format!("main-vm-sliced:{}", if b <= 2 { "1-2" } else if b <= 17 { "5-17" } else { "100-1000" }));
    }
    Case { steps, tags, main_slice }
}

fn subst(form: &Cell, fail: &Cell) -> Cell {
    match form {
        Cell::Pair(h, t) => {
            if let (Cell::Symbol(s), Cell::Nil) = (h.as_ref(), t.as_ref()) {
                if s == "FAIL" {
                    return fail.clone();
                }
            }
            Cell::Pair(Box::new(subst(h, fail)), Box::new(subst(t, fail)))
        }
        _ => form.clone(),
    }
}

struct Ran {
    form: MwForm,
    trace: Option<Vec<String>>,
    sp_before: usize,
    sp_after: usize,
    text: String,
}

fn run_item(m: &mut MwVm, it: &Item, slice: Option<usize>) -> Ran {
    let sp_before = m.vm.verif_stats().sp;
    let (form, text) = match it {
        Item::Form(f) => (
            match slice {
                Some(b) => crate::diff::run_form_sliced(m, f, b),
                None => run_form(m, f),
            },
            format!("{:#}", f),
        ),
        Item::Text(t) => {
            m.events.borrow_mut().clear();
            let r = catch(|| m.vm.eval_text(t).map(|x| x.0));
            let f = match r {
                Err(p) => MwForm { outcome: MwOutcome::Panic(p), output: vec![], trace_frames: None },
                Ok(Ok(c)) => MwForm { outcome: MwOutcome::Value(crate::refscheme::d_of_cell(&c)), output: vec![], trace_frames: None },
                Ok(Err(e)) => {
                    let (c, p) = crate::diff::classify(&e);
                    MwForm { outcome: MwOutcome::Failure(c, p, e.to_string()), output: vec![], trace_frames: None }
                }
            };
            (f, t.clone())
        }
    };
    let trace = if matches!(form.outcome, MwOutcome::Failure(..)) { trace_of(m) } else { None };
    let sp_after = m.vm.verif_stats().sp;
    Ran { form, trace, sp_before, sp_after, text }
}

fn same(a: &MwForm, b: &MwForm) -> bool {
    match (&a.outcome, &b.outcome) {
        (MwOutcome::Value(x), MwOutcome::Value(y)) => x == y,
        (MwOutcome::Failure(c1, p1, _), MwOutcome::Failure(c2, p2, _)) => c1 == c2 && p1 == p2,
        _ => false,
    }
}

fn witness(case: &Case) -> Json {
    let mut main = String::new();
    let mut twin = String::new();
    for s in &case.steps {
        for it in &s.main {
            main.push_str(&match it {
                Item::Form(f) => format!("{:#}\n", f),
                Item::Text(t) => format!(";; text: {}\n", t),
            });
        }
        for it in &s.twin {
            twin.push_str(&match it {
                Item::Form(f) => format!("{:#}\n", f),
                Item::Text(t) => format!(";; text: {}\n", t),
            });
        }
    }
    Json::obj().set("main_session", main).set("twin_session", twin).set("tags", Json::Arr(case.tags.iter().map(|t| Json::Str(t.clone())).collect()))
}

pub fn check_case(case: &Case, rep: &mut Report, id: (u64, u64), verbose: bool) -> bool {
    rep.evaluations += 1;
    let mut main = MwVm::new();
    let mut twin = MwVm::new();
    let kind_tag = case.tags.iter().find(|t| t.starts_with("kind:")).cloned().unwrap_or_default();
    let shape_tag = case.tags.iter().find(|t| t.starts_with("shape:")).cloned().unwrap_or_default();
    let mut failures_seen = 0;
    for (si, s) in case.steps.iter().enumerate() {
        let rm: Vec<Ran> = s.main.iter().map(|it| run_item(&mut main, it, case.main_slice)).collect();
        let rt: Vec<Ran> = s.twin.iter().map(|it| run_item(&mut twin, it, None)).collect();
        for r in rm.iter().chain(rt.iter()) {
            if let MwOutcome::Panic(p) = &r.form.outcome {
                rep.violation(&format!("panic:{}", p.file()), format!("{} panicked: {} at {}", r.text, p.message, p.location), witness(case), id);
                return false;
            }
            if let MwOutcome::Budget = &r.form.outcome {
                rep.inconclusive("watchdog in C07 case");
                return false;
            }
        }
        // (c) the stack pointer is back where it was, after every evaluation of the main VM
        for r in &rm {
            rep.count("evaluations_with_sp_checked", 1);
            if verbose {
                println!("[{}] {} -> {}   sp {}->{} trace {:?}", s.label, r.text.chars().take(100).collect::<String>(), show_outcome(&r.form.outcome), r.sp_before, r.sp_after, r.trace.as_ref().map(|t| t.len()));
            }
            if r.sp_after != r.sp_before {
                let failed = matches!(r.form.outcome, MwOutcome::Failure(..));
                rep.violation(
                    &format!("stack-pointer-not-restored:{}", if failed { "after-failure" } else { "after-success" }),
                    format!("step {} ({}): sp was {} before and {} after evaluating {} -> {}", si, s.label, r.sp_before, r.sp_after, r.text.chars().take(200).collect::<String>(), show_outcome(&r.form.outcome)),
                    witness(case),
                    id,
                );
                return false;
            }
        }
        if s.label == "failing-form" {
            for r in &rm {
                if matches!(r.form.outcome, MwOutcome::Failure(..)) {
                    failures_seen += 1;
                    rep.count("failing_forms_executed", 1);
                } else {
                    // the injected failure did not trigger (e.g. sat in a branch not taken): the twin is not exact
                    rep.count("injected_failure_not_reached", 1);
                    return false;
                }
            }
        }
        if s.compare && !rm.is_empty() && rm.len() == rt.len() {
            for (a, b) in rm.iter().zip(rt.iter()) {
                rep.count("later_forms_compared", 1);
                if !same(&a.form, &b.form) {
                    rep.violation(
                        &format!("later-outcome-differs:{}:{}", kind_tag, shape_tag),
                        format!("step {} ({}) {}: after the failures {} but in the twin (effects only) {}", si, s.label, a.text.chars().take(200).collect::<String>(), show_outcome(&a.form.outcome), show_outcome(&b.form.outcome)),
                        witness(case),
                        id,
                    );
                    return false;
                }
                if failures_seen > 0 && a.trace.is_some() != b.trace.is_some() {
                    rep.violation(
                        &format!("stack-trace-differs:{}", if a.trace.is_some() { "stale-trace-reported" } else { "trace-missing" }),
                        format!("step {} {} fails in both VMs, but last_stacktrace() is {:?} after the failures and {:?} in the twin", si, a.text.chars().take(120).collect::<String>(), a.trace.as_ref().map(|t| t.iter().take(6).collect::<Vec<_>>()), b.trace.as_ref().map(|t| t.iter().take(6).collect::<Vec<_>>())),
                        witness(case),
                        id,
                    );
                    return false;
                }
                if failures_seen > 0 {
                    if let (Some(ta), Some(tb)) = (&a.trace, &b.trace) {
                        rep.count("stack_traces_compared", 1);
                        if ta != tb {
                            rep.violation(
                                &format!("stack-trace-differs:{}", if ta.len() != tb.len() { "frame-count" } else { "descriptors" }),
                                format!("step {} {}: stack trace has {} frames {:?} but {} frames in the twin {:?}", si, a.text.chars().take(120).collect::<String>(), ta.len(), ta.iter().take(8).collect::<Vec<_>>(), tb.len(), tb.iter().take(8).collect::<Vec<_>>()),
                                witness(case),
                                id,
                            );
                            return false;
                        }
                    }
                }
            }
        }
    }
    true
}

/// (d): resources after k consecutive failures must not depend on k
fn accumulation(rng: &mut Rng, rep: &mut Report, id: (u64, u64), verbose: bool) {
    rep.evaluations += 1;
    let kind = rng.usize(5);
    let fail = failing_expr(kind, rng);
    let depth = rng.range(1, 40);
    let form = parse_forms(&format!("(+ 1 (deepa {} (lambda () (FAIL))))", depth));
    let form = subst(&form[0], &gen::list(vec![gen::list(vec![gen::sym("lambda"), Cell::Nil, fail.clone()])]));
    let measure = |k: usize| -> (usize, usize, usize, usize, usize) {
        let mut m = MwVm::new();
        for d in parse_forms("(define (deepa n th) (if (= n 0) (th) (+ 1 (deepa (- n 1) th))))") {
            run_form(&mut m, &d);
        }
        for _ in 0..k {
            run_form(&mut m, &form);
        }
        // the heap must not have grown with the number of failures (nothing but failures ran)
        let capacity = m.vm.verif_stats().heap_capacity;
        // one successful evaluation, then a collection
        run_form(&mut m, &gen::call("+", vec![gen::int(1), gen::int(2)]));
        m.vm.verif_force_gc();
        let s = m.vm.verif_stats();
        let frames = {
            run_form(&mut m, &form);
            trace_of(&m).map(|t| t.len()).unwrap_or(0)
        };
        (s.stack_capacity, s.heap_used, s.sp, frames, capacity)
    };
    let small = measure(10);
    let large = measure(1000);
    rep.count("accumulation_runs", 1);
    if verbose {
        println!("k=10 -> {:?}   k=1000 -> {:?}", small, large);
    }
    let wit = Json::obj().set("form", format!("{:#}", form)).set("k10", format!("{:?}", small)).set("k1000", format!("{:?}", large));
    if large.4 > small.4 {
        rep.violation("accumulates:heap-capacity", format!("heap capacity {} cells after 10 failures, {} after 1000 failures of {:#} (nothing else was evaluated)", small.4, large.4, form), wit.clone(), id);
    } else if large.0 > small.0 {
        rep.violation("accumulates:stack-capacity", format!("stack capacity {} after 10 failures, {} after 1000 failures of {:#}", small.0, large.0, form), wit.clone(), id);
    } else if large.2 != small.2 {
        rep.violation("accumulates:stack-pointer", format!("sp {} after 10 failures, {} after 1000", small.2, large.2), wit.clone(), id);
    } else if large.1 > small.1 + 64 {
        rep.violation("accumulates:live-heap", format!("{} cells live after 10 failures and a collection, {} after 1000", small.1, large.1), wit.clone(), id);
    } else if large.3 != small.3 {
        rep.violation("accumulates:stack-trace-frames", format!("the next failure's trace has {} frames after 10 failures, {} after 1000", small.3, large.3), wit, id);
    }
}

pub fn run(ctx: &Ctx, rep: &mut Report) {
    let verbose = ctx.is_replay();
    let n = ctx.cases(20_000, 200_000);
    for index in ctx.indices(n) {
        let mut rng = ctx.rng("c07", index);
        if index % 1000 == 999 {
            accumulation(&mut rng, rep, (ctx.shard, index), verbose);
            continue;
        }
        let case = build_case(&mut rng, index);
        if verbose {
            println!("--- case {} tags {:?}", index, case.tags);
        }
        if check_case(&case, rep, (ctx.shard, index), verbose) {
            let key = witness(&case).to_string();
            rep.nontrivial(hash_str(&key));
            for t in &case.tags {
                rep.see("fault_kinds_and_shapes", t);
            }
            if index % 997 == 11 {
                rep.sample(witness(&case));
            }
        }
    }
    if verbose {
        for v in &rep.violations {
            println!("VIOLATION {} :: {}", v.sig, v.detail);
        }
    }
}
