//! C11 — reader discipline: total, exact spans, one datum per parse, incompleteness found.
//!
//! Every predicate is an independent check over one call of lex::scan / parse::parse /
//! parse::parse_text / Vm::eval_text. Cases run in sandboxed child processes so that a hang or an
//! abort is attributed to its input instead of killing the run.
use crate::json::Json;
use crate::mw::catch;
use crate::report::Report;
use crate::rng::{hash_str, Rng};
use crate::sandbox;
use crate::Ctx;
use marwood::lex::{self, Token, TokenType};
use marwood::parse;
use std::time::Duration;

pub const PRELUDE: &str = include_str!("/repo/marwood/prelude.scm");

// ---------- independent helpers ----------

/// gap text may only contain whitespace and `;` comments running to end of line
fn gap_ok(gap: &str) -> bool {
    let mut it = gap.chars().peekable();
    while let Some(c) = it.next() {
        if c == ';' {
            for d in it.by_ref() {
                if d == '\n' {
                    break;
                }
            }
        } else if !c.is_whitespace() {
            return false;
        }
    }
    true
}

#[derive(Debug, Clone, Copy, PartialEq)]
enum Delim {
    Complete(usize),
    Incomplete,
    Malformed,
}

/// Independent "one datum" delimiter over token types, starting at token i.
fn delimit(tokens: &[Token], i: usize) -> Delim {
    // iterative to survive deep nesting
    let mut j = i;
    let mut depth = 0usize;
    loop {
        let t = match tokens.get(j) {
            Some(t) => t,
            None => return Delim::Incomplete,
        };
        match t.token_type {
            TokenType::SingleQuote | TokenType::Quasiquote | TokenType::Unquote => {
                j += 1;
                continue;
            }
            TokenType::NumberPrefix => {
                let mut k = j;
                while let Some(t) = tokens.get(k) {
                    if t.token_type == TokenType::NumberPrefix {
                        k += 1;
                    } else {
                        break;
                    }
                }
                match tokens.get(k) {
                    None => return Delim::Incomplete,
                    Some(t) if matches!(t.token_type, TokenType::Number | TokenType::Symbol) => {
                        j = k + 1;
                    }
                    Some(_) => return Delim::Malformed,
                }
            }
            TokenType::LeftParen | TokenType::HashParen => {
                depth += 1;
                j += 1;
                continue;
            }
            TokenType::RightParen => {
                if depth == 0 {
                    return Delim::Malformed;
                }
                depth -= 1;
                j += 1;
            }
            TokenType::Dot => {
                if depth == 0 {
                    return Delim::Malformed;
                }
                j += 1;
                continue;
            }
            _ => {
                j += 1;
            }
        }
        if depth == 0 {
            return Delim::Complete(j - i);
        }
    }
}

fn tok_index(tokens: &[Token], t: &Token) -> usize {
    let base = tokens.as_ptr() as usize;
    let p = t as *const Token as usize;
    (p - base) / std::mem::size_of::<Token>()
}

fn wit(text: &str) -> Json {
    let t: String = text.chars().take(400).collect();
    Json::obj().set("text", t).set("bytes", text.len())
}

// ---------- the checks over an arbitrary text ----------

pub fn check_text(text: &str, rep: &mut Report, case: (u64, u64), verbose: bool) -> bool {
    rep.evaluations += 1;
    let mut nontrivial = false;
    let scanned = catch(|| lex::scan(text));
    let tokens = match scanned {
        Err(p) => {
            rep.violation(&format!("scan:panic:{}", p.file()), format!("lex::scan panicked: {} at {}", p.message, p.location), wit(text), case);
            return false;
        }
        Ok(Err(_e)) => {
            rep.count("scan_errors", 1);
            // parse_text must report the same kind of failure, not panic
            match catch(|| parse::parse_text(text).map(|x| x.1.is_some())) {
                Err(p) => rep.violation(&format!("parse_text:panic:{}", p.file()), format!("parse_text panicked: {} at {}", p.message, p.location), wit(text), case),
                Ok(Ok(_)) => rep.violation("parse_text:ok-though-scan-failed", "scan failed but parse_text succeeded".into(), wit(text), case),
                Ok(Err(_)) => {}
            }
            return false;
        }
        Ok(Ok(t)) => t,
    };
    rep.count("scans_ok", 1);
    rep.count("tokens", tokens.len() as u64);
    // 1. token invariants
    let mut prev_end = 0usize;
    for (k, t) in tokens.iter().enumerate() {
        let (a, b) = t.span;
        let bad = if a >= b {
            Some("empty-token")
        } else if b > text.len() {
            Some("out-of-bounds")
        } else if !text.is_char_boundary(a) || !text.is_char_boundary(b) {
            Some("off-char-boundary")
        } else if a < prev_end {
            Some("overlapping-or-unordered")
        } else if !gap_ok(&text[prev_end..a]) {
            Some("gap-not-whitespace-or-comment")
        } else {
            None
        };
        if let Some(kind) = bad {
            rep.violation(&format!("scan:{}:{:?}", kind, t.token_type), format!("token #{} {:?} span {:?} in {:?}", k, t.token_type, t.span, text), wit(text), case);
            return false;
        }
        prev_end = b;
    }
    if !gap_ok(&text[prev_end..]) {
        rep.violation("scan:trailing-text-dropped", format!("text after the last token is neither whitespace nor comment: {:?}", &text[prev_end..]), wit(text), case);
        return false;
    }
    // 2. parse consumes exactly one datum; datum-by-datum loop terminates and visits each datum once
    let mut cur = tokens.iter().peekable();
    let mut pos = 0usize;
    let mut data = 0u64;
    loop {
        if pos >= tokens.len() {
            break;
        }
        let d = delimit(&tokens, pos);
        let r = catch(|| parse::parse(text, &mut cur));
        let after = match cur.peek() {
            Some(t) => tok_index(&tokens, t),
            None => tokens.len(),
        };
        match r {
            Err(p) => {
                rep.violation(&format!("parse:panic:{}", p.file()), format!("parse panicked: {} at {}", p.message, p.location), wit(text), case);
                return false;
            }
            Ok(Ok(_cell)) => {
                data += 1;
                rep.count("data_parsed", 1);
                let consumed = after - pos;
                match d {
                    Delim::Complete(n) if n == consumed => {}
                    Delim::Complete(n) => {
                        rep.violation(
                            "parse:consumed-wrong-number-of-tokens",
                            format!("datum at token {} has {} tokens, parse consumed {} in {:?}", pos, n, consumed, text),
                            wit(text),
                            case,
                        );
                        return false;
                    }
                    Delim::Incomplete => {
                        rep.violation("parse:ok-though-datum-incomplete", format!("tokens from {} do not complete a datum but parse returned Ok in {:?}", pos, text), wit(text), case);
                        return false;
                    }
                    Delim::Malformed => {}
                }
                if consumed == 0 {
                    rep.violation("parse:no-progress", format!("parse returned Ok without consuming a token at {}", pos), wit(text), case);
                    return false;
                }
                nontrivial |= consumed > 1;
                pos = after;
            }
            Ok(Err(e)) => {
                rep.count("parse_errors", 1);
                let incomplete = matches!(e, parse::Error::Incomplete) || matches!(e, parse::Error::LexError(lex::Error::Incomplete));
                if incomplete {
                    rep.count("parse_incomplete", 1);
                    if let Delim::Complete(_) = d {
                        rep.violation("parse:complete-datum-reported-incomplete", format!("tokens from {} form a complete datum but parse said Incomplete in {:?}", pos, text), wit(text), case);
                        return false;
                    }
                }
                break;
            }
        }
    }
    // 3. parse_text: remaining text is *the* suffix starting at the next token
    let mut rest: &str = text;
    let mut visited = 0u64;
    let mut guard = 0usize;
    loop {
        let r = catch(|| parse::parse_text(rest));
        match r {
            Err(p) => {
                rep.violation(&format!("parse_text:panic:{}", p.file()), format!("parse_text panicked: {} at {}", p.message, p.location), wit(text), case);
                return false;
            }
            Ok(Err(_)) => break,
            Ok(Ok((_cell, remaining))) => {
                visited += 1;
                // expected remaining: suffix at the first token after this datum, computed on `rest`
                let rtokens = match lex::scan(rest) {
                    Ok(t) => t,
                    Err(_) => break,
                };
                let exp = match delimit(&rtokens, 0) {
                    Delim::Complete(n) => Some(rtokens.get(n).map(|t| t.span.0)),
                    _ => None,
                };
                if let Some(exp) = exp {
                    let ok = match (exp, remaining) {
                        (None, None) => true,
                        (Some(off), Some(r)) => r.as_ptr() as usize == rest.as_ptr() as usize + off && r.len() == rest.len() - off,
                        _ => false,
                    };
                    if !ok {
                        rep.violation(
                            "parse_text:wrong-remaining-text",
                            format!("remaining={:?} expected suffix at {:?} of {:?}", remaining.map(|r| r.chars().take(40).collect::<String>()), exp, rest.chars().take(80).collect::<String>()),
                            wit(text),
                            case,
                        );
                        return false;
                    }
                }
                match remaining {
                    None => break,
                    Some(r) => {
                        if r.len() >= rest.len() {
                            rep.violation("parse_text:remaining-does-not-shrink", format!("remaining text did not shrink at {:?}", rest.chars().take(60).collect::<String>()), wit(text), case);
                            return false;
                        }
                        rest = r;
                    }
                }
            }
        }
        guard += 1;
        if guard > text.len() + 2 {
            rep.violation("parse_text:loop-does-not-terminate", "datum-by-datum loop exceeded its bound".into(), wit(text), case);
            return false;
        }
    }
    if visited != data {
        rep.violation("parse_text:loop-visits-different-number-of-data", format!("parse loop saw {} data, parse_text loop saw {} in {:?}", data, visited, text), wit(text), case);
        return false;
    }
    if verbose {
        println!("text={:?}\n tokens={} data={} visited={}", text, tokens.len(), data, visited);
    }
    nontrivial
}

// ---------- generators ----------

const SOUP: [&str; 64] = [
    "(", ")", "[", "]", "{", "}", "#(", "'", "`", ",", ".", "...", "#t", "#f", "#\\a", "#\\space", "#\\x41", "#\\(", "#\\", "#\\λ", "#e", "#x", "#b", "#i", "#d", "#o", "\"\"", "\"a b\"",
    "\"\\\"\"", "\"\\x41;\"", "\"(\"", "\"", "; c\n", ";", "\n", " ", "\t", "12", "-3", "+", "-", "1/2", "1.5", "1e3", ".5", "1.", "abc", "set!", "->x", "a.b", "a;b", "λ", "日本", "\u{2003}", "\u{a0}", "#",
    "#;", "|a|", "@", "1+", "+5", "-i", "\\", "x\\y",
];

fn random_unicode(rng: &mut Rng) -> String {
    let n = rng.usize(24);
    let mut s = String::new();
    for _ in 0..n {
        let c = match rng.usize(8) {
            0..=2 => rng.below(0x80) as u32,
            3 => rng.below(0x100) as u32,
            4 => rng.below(0x3000) as u32,
            5 => 0x1F300 + rng.below(0x400) as u32,
            6 => rng.below(0x110000) as u32,
            _ => *rng.pick(&[0x28u32, 0x29, 0x22, 0x3b, 0x23, 0x5c, 0x27, 0x2e, 0x0a, 0x20]),
        };
        if let Some(c) = char::from_u32(c) {
            s.push(c);
        }
    }
    s
}

fn soup(rng: &mut Rng) -> String {
    let n = 1 + rng.usize(14);
    let mut s = String::new();
    for _ in 0..n {
        s.push_str(*rng.pick::<&str>(&SOUP));
        if rng.chance(1, 2) {
            s.push(' ');
        }
    }
    s
}

fn mutate(base: &str, rng: &mut Rng) -> String {
    let mut cs: Vec<char> = base.chars().collect();
    let n = 1 + rng.usize(4);
    for _ in 0..n {
        if cs.is_empty() {
            break;
        }
        let i = rng.usize(cs.len());
        match rng.usize(5) {
            0 => {
                cs.remove(i);
            }
            1 => cs.insert(i, *rng.pick(&['(', ')', '"', ';', '#', '\\', '.', '\'', ' ', '\n', 'λ', '[', '}'])),
            2 => cs[i] = *rng.pick(&['(', ')', '"', ';', '#', '\\', '.', ' ', 'x', '1']),
            3 => {
                let j = rng.usize(cs.len());
                cs.swap(i, j);
            }
            _ => {
                let j = (i + rng.usize(20)).min(cs.len());
                cs.drain(i..j);
            }
        }
    }
    cs.into_iter().collect()
}

fn prelude_slice(rng: &mut Rng) -> String {
    let cs: Vec<(usize, char)> = PRELUDE.char_indices().collect();
    let a = rng.usize(cs.len());
    let b = (a + 20 + rng.usize(300)).min(cs.len() - 1);
    PRELUDE[cs[a].0..cs[b].0].to_string()
}

// well-formed datum text
fn sep(rng: &mut Rng, out: &mut String) {
    match rng.usize(8) {
        0 => out.push('\n'),
        1 => out.push_str("  "),
        2 => out.push_str(" ; comment ( \" \n"),
        3 => out.push('\t'),
        _ => out.push(' '),
    }
}

fn gen_atom(rng: &mut Rng) -> String {
    match rng.usize(9) {
        0 => rng.pick::<&str>(&["0", "12", "-3", "+5", "1/2", "-7/3", "1.5", ".5", "1e3", "-2.5e-3", "123456789012345678901234567890"]).to_string(),
        1 => rng.pick::<&str>(&["#xFF", "#b101", "#o17", "#e1.5", "#i3", "#x-a", "#d10", "#e#x10", "#x#e10"]).to_string(),
        2 => rng.pick::<&str>(&["#t", "#f"]).to_string(),
        3 => rng.pick::<&str>(&["#\\a", "#\\space", "#\\newline", "#\\x41", "#\\(", "#\\)", "#\\;", "#\\\"", "#\\λ", "#\\𝄞", "#\\tab", "#\\x3bb", "#\\1"]).to_string(),
        4 => {
            let body = rng.pick::<&str>(&["", "abc", "a b", "(", ")", ";", "\\\"", "\\\\", "\\n", "\\x41;", "λ日本", "𝄞", "a\nb", "#(", "'"]);
            let body2 = rng.pick::<&str>(&["", "x", " ; ", "\\t", ")("]);
            format!("\"{}{}\"", body, body2)
        }
        5 => rng.pick::<&str>(&["a", "abc", "set!", "->x", "a.b", "λ", "日本", "x1", "a-b", "+", "-", "...", "<=?", "!", "$%&*/:<=>?^_~", "a@b", "list->vector", "1+", "-x"]).to_string(),
        6 => format!("{}", rng.range(-1000, 1000)),
        7 => rng.pick::<&str>(&["lambda", "define", "quote", "if", "x", "y", "z"]).to_string(),
        _ => rng.pick::<&str>(&["a;b", "\\x41;", "a\\b"]).to_string(),
    }
}

fn gen_datum(rng: &mut Rng, depth: usize, out: &mut String) {
    let k = if depth == 0 { rng.usize(3) } else { rng.usize(10) };
    match k {
        0..=2 => out.push_str(&gen_atom(rng)),
        3 => {
            out.push_str(*rng.pick::<&str>(&["'", "`", ","]));
            if rng.chance(1, 4) {
                sep(rng, out);
            }
            gen_datum(rng, depth - 1, out);
        }
        4 => {
            out.push_str("#(");
            let n = rng.usize(4);
            for i in 0..n {
                if i > 0 || rng.chance(1, 3) {
                    sep(rng, out);
                }
                gen_datum(rng, depth - 1, out);
            }
            if rng.chance(1, 3) {
                sep(rng, out);
            }
            out.push(')');
        }
        _ => {
            let (o, c) = *rng.pick(&[('(', ')'), ('(', ')'), ('[', ']'), ('{', '}')]);
            out.push(o);
            let n = rng.usize(5);
            for i in 0..n {
                if i > 0 || rng.chance(1, 3) {
                    sep(rng, out);
                }
                gen_datum(rng, depth - 1, out);
            }
            if n > 0 && rng.chance(1, 5) {
                sep(rng, out);
                out.push('.');
                sep(rng, out);
                gen_datum(rng, depth - 1, out);
            }
            if rng.chance(1, 3) {
                sep(rng, out);
            }
            out.push(c);
        }
    }
}

/// fuzz text of one of the kinds used by C11 (shared with C06)
pub fn fuzz_text(rng: &mut Rng, index: u64) -> String {
    match index % 8 {
        0 => random_unicode(rng),
        1 | 2 => soup(rng),
        3 | 4 => {
            let base = if rng.bool() { prelude_slice(rng) } else { gen_sequence(rng).0 };
            mutate(&base, rng)
        }
        5 => gen_sequence(rng).0,
        _ => {
            // mutation of a generated *program*
            let s = crate::gen::session(rng, crate::gen::Opts::default(), true);
            let t = crate::gen::text_of(&s.forms);
            if rng.bool() {
                mutate(&t, rng)
            } else {
                t
            }
        }
    }
}

/// (text, number of top-level data)
fn gen_sequence(rng: &mut Rng) -> (String, usize) {
    let n = 1 + rng.usize(4);
    let mut out = String::new();
    if rng.chance(1, 4) {
        sep(rng, &mut out);
    }
    for i in 0..n {
        if i > 0 {
            sep(rng, &mut out);
        }
        let depth = 1 + rng.usize(4);
        gen_datum(rng, depth, &mut out);
    }
    if rng.chance(1, 3) {
        sep(rng, &mut out);
    }
    (out, n)
}

fn is_incomplete(e: &parse::Error) -> bool {
    matches!(e, parse::Error::Incomplete) || matches!(e, parse::Error::LexError(lex::Error::Incomplete))
}

/// well-formed sequences: count, every token-boundary prefix, eval_text loop
fn check_wellformed(text: &str, n: usize, vm: &mut marwood::vm::Vm, rep: &mut Report, case: (u64, u64), verbose: bool) {
    let tokens = match lex::scan(text) {
        Ok(t) => t,
        Err(e) => {
            rep.violation("wellformed:scan-error", format!("generated well-formed text does not scan: {:?}: {:?}", e, text), wit(text), case);
            return;
        }
    };
    // a generated datum may legitimately be rejected (e.g. bracket rules); only Ok / Incomplete matter
    // full text: count of data
    let mut rest = text;
    let mut count = 0usize;
    let mut errored = false;
    loop {
        match parse::parse_text(rest) {
            Ok((_c, rem)) => {
                count += 1;
                match rem {
                    Some(r) => rest = r,
                    None => break,
                }
            }
            Err(e) => {
                errored = true;
                if is_incomplete(&e) {
                    rep.violation("wellformed:complete-datum-reported-incomplete", format!("complete well-formed text reported Incomplete: {:?}", text), wit(text), case);
                    return;
                }
                rep.count("wellformed_rejected", 1);
                break;
            }
        }
    }
    if !errored && count != n {
        rep.violation("wellformed:wrong-number-of-data", format!("generated {} data, reader visited {}: {:?}", n, count, text), wit(text), case);
        return;
    }
    if errored {
        return;
    }
    rep.count("wellformed_sequences", 1);
    // prefixes at every token boundary
    for k in 0..tokens.len() {
        let cut = tokens[k].span.1;
        let prefix = &text[..cut];
        rep.evaluations += 1;
        rep.count("prefixes", 1);
        let ptoks = match lex::scan(prefix) {
            Ok(t) => t,
            Err(e) => {
                rep.violation("prefix:scan-error", format!("token-boundary prefix does not scan: {:?}: {:?}", e, prefix), wit(prefix), case);
                return;
            }
        };
        // where does the cut fall? walk data with the independent delimiter
        let mut pos = 0usize;
        let mut inside = false;
        while pos < ptoks.len() {
            match delimit(&ptoks, pos) {
                Delim::Complete(c) => pos += c,
                Delim::Incomplete => {
                    inside = true;
                    break;
                }
                Delim::Malformed => {
                    break;
                }
            }
        }
        // run the reader loop on the prefix
        let mut rest = prefix;
        let mut last_err: Option<parse::Error> = None;
        loop {
            match parse::parse_text(rest) {
                Ok((_c, Some(r))) => rest = r,
                Ok((_c, None)) => break,
                Err(e) => {
                    last_err = Some(e);
                    break;
                }
            }
        }
        if inside {
            rep.count("prefixes_inside_datum", 1);
            match &last_err {
                Some(e) if is_incomplete(e) => {}
                other => {
                    let cls = prefix_class(&ptoks);
                    rep.violation(
                        &format!("prefix:cut-inside-datum-not-incomplete:{}", cls),
                        format!("prefix {:?} cuts a well-formed datum but the reader said {:?}", prefix, other),
                        wit(prefix),
                        case,
                    );
                    return;
                }
            }
        } else if let Some(e) = &last_err {
            if is_incomplete(e) {
                rep.violation("prefix:complete-prefix-reported-incomplete", format!("prefix {:?} ends at a datum boundary but the reader said Incomplete", prefix), wit(prefix), case);
                return;
            }
        }
    }
    // the evaluator's own loop: quote every datum, evaluate datum by datum
    if n > 0 {
        let mut q = String::new();
        let mut rest = text;
        let mut data: Vec<marwood::cell::Cell> = vec![];
        while let Ok((c, rem)) = parse::parse_text(rest) {
            let consumed_len = match rem {
                Some(r) => rest.len() - r.len(),
                None => rest.len(),
            };
            q.push_str("(quote ");
            q.push_str(&rest[..consumed_len]);
            q.push_str("\n) ");
            data.push(c);
            match rem {
                Some(r) => rest = r,
                None => break,
            }
        }
        let mut rest: &str = &q;
        let mut seen = 0usize;
        let mut guard = 0;
        loop {
            let r = catch(|| vm.eval_text(rest));
            match r {
                Err(p) => {
                    rep.violation(&format!("eval_text:panic:{}", p.file()), format!("eval_text panicked: {} at {}", p.message, p.location), wit(&q), case);
                    *vm = marwood::vm::Vm::new();
                    return;
                }
                Ok(Err(_)) => {
                    rep.count("eval_text_errors", 1);
                    break;
                }
                Ok(Ok((_v, rem))) => {
                    seen += 1;
                    match rem {
                        Some(r) => {
                            if r.len() >= rest.len() {
                                rep.violation("eval_text:remaining-does-not-shrink", format!("{:?}", rest), wit(&q), case);
                                return;
                            }
                            rest = r
                        }
                        None => break,
                    }
                }
            }
            guard += 1;
            if guard > q.len() {
                break;
            }
        }
        rep.count("eval_text_loops", 1);
        if seen != data.len() && seen != 0 {
            // an Err in the middle stops early; that is fine. More visits than data is not.
            if seen > data.len() {
                rep.violation("eval_text:visits-more-data-than-exist", format!("{} data, {} evaluations: {:?}", data.len(), seen, q), wit(&q), case);
            }
        }
    }
    if verbose {
        println!("wellformed text={:?} n={} tokens={}", text, n, tokens.len());
    }
}

fn prefix_class(tokens: &[Token]) -> String {
    match tokens.last() {
        Some(t) => format!("after-{:?}", t.token_type),
        None => "empty".into(),
    }
}

pub fn run(ctx: &Ctx, rep: &mut Report) {
    let total = ctx.cases(1_500_000, 30_000_000);
    if let Some(w) = &ctx.witness {
        if ctx.replay.is_none() {
            let text = w.get("text").and_then(|t| t.as_str()).unwrap_or("").to_string();
            check_text(&text, rep, (0, 0), true);
            for v in &rep.violations {
                println!("VIOLATION {} :: {}", v.sig, v.detail);
            }
            return;
        }
    }
    if ctx.replay.is_some() || sandbox::child_range(ctx).is_some() {
        let (s, e) = match ctx.replay {
            Some(i) => (i, i + 1),
            None => sandbox::child_range(ctx).unwrap(),
        };
        let mut vm = marwood::vm::Vm::new();
        for index in s..e {
            if ctx.replay.is_none() {
                sandbox::journal_begin(index);
            }
            let mut rng = ctx.rng("c11", index);
            let verbose = ctx.is_replay();
            match index % 8 {
                0 => {
                    let t = random_unicode(&mut rng);
                    if check_text(&t, rep, (ctx.shard, index), verbose) {
                        rep.nontrivial(hash_str(&t));
                    }
                }
                1 | 2 => {
                    let t = soup(&mut rng);
                    if check_text(&t, rep, (ctx.shard, index), verbose) {
                        rep.nontrivial(hash_str(&t));
                        if index % 997 == 1 {
                            rep.sample(Json::obj().set("kind", "token-soup").set("text", t.as_str()));
                        }
                    }
                }
                3 | 4 => {
                    let base = if rng.bool() { prelude_slice(&mut rng) } else { gen_sequence(&mut rng).0 };
                    let t = mutate(&base, &mut rng);
                    if check_text(&t, rep, (ctx.shard, index), verbose) {
                        rep.nontrivial(hash_str(&t));
                        if index % 997 == 3 {
                            rep.sample(Json::obj().set("kind", "mutation").set("text", t.chars().take(200).collect::<String>()));
                        }
                    }
                }
                _ => {
                    let (t, n) = gen_sequence(&mut rng);
                    if check_text(&t, rep, (ctx.shard, index), verbose) {
                        rep.nontrivial(hash_str(&t));
                    }
                    check_wellformed(&t, n, &mut vm, rep, (ctx.shard, index), verbose);
                    if index % 997 == 5 {
                        rep.sample(Json::obj().set("kind", "well-formed-sequence").set("data", n).set("text", t.as_str()));
                    }
                }
            }
        }
        if ctx.is_replay() {
            for v in &rep.violations {
                println!("VIOLATION {} :: {}", v.sig, v.detail);
            }
        }
        return;
    }
    // parent: drive sandboxed children
    let cfg = sandbox::DriveCfg {
        segment: 50_000,
        idle: Duration::from_secs(20),
        limits: sandbox::Limits { stack_kib: Some(8192), as_kib: Some(4 << 20) },
        extra: None,
    };
    let culprits = sandbox::drive(ctx, "c11", total, &cfg, rep);
    for c in culprits {
        if c.confirmed {
            let kind = sandbox::death_kind(&c.exit, &c.stderr_tail);
            rep.violation(
                &format!("reader:{}", kind),
                format!("case {} kills or hangs the reader: {:?} {}", c.index, c.exit, c.stderr_tail.chars().take(300).collect::<String>()),
                sandbox::json_of(&c),
                (ctx.shard, c.index),
            );
        }
    }
}
