//! C06 — total API: every input yields Ok or Err, never a panic, abort or hang.
//!
//! Monitors: panic recorder + catch_unwind at the API boundary; an instruction-budget watchdog
//! for Scheme-level loops; the process sandbox for aborts, native hangs and allocation failures
//! (a culprit is only reported when it reproduces twice in isolation); Display of every returned
//! error; a canary evaluation after every call (the VM must stay usable).
use crate::engines::c05::parse_forms;
use crate::engines::c11;
use crate::json::Json;
use crate::mw::catch;
use crate::report::Report;
use crate::rng::{hash_str, Rng};
use crate::sandbox;
use crate::Ctx;
use marwood::cell::Cell;
use marwood::number::Number;
use marwood::vm::Vm;
use std::time::Duration;

/// (kind label, expression producing a fresh value)
pub const PALETTE: [(&str, &str); 66] = [
    ("int:0", "0"),
    ("int:1", "1"),
    ("int:-1", "-1"),
    ("int:2", "2"),
    ("int:small", "10"),
    ("int:255", "255"),
    ("int:1e6", "1000000"),
    ("int:i32max", "2147483647"),
    ("int:i32min", "-2147483648"),
    ("int:2^31", "2147483648"),
    ("int:2^32", "4294967296"),
    ("int:i64max", "9223372036854775807"),
    ("int:i64min", "-9223372036854775808"),
    ("big:2^63", "9223372036854775808"),
    ("big:large", "123456789012345678901234567890"),
    ("big:negative", "-123456789012345678901234567890"),
    ("big:small-value", "(- (+ 5 18446744073709551616) 18446744073709551616)"),
    ("rat:1/2", "1/2"),
    ("rat:-1/2", "-1/2"),
    ("rat:big", "2147483647/2"),
    ("rat:integer-valued", "(/ 4 2)"),
    ("flo:0", "0.0"),
    ("flo:-0", "-0.0"),
    ("flo:1.5", "1.5"),
    ("flo:-1.5", "-1.5"),
    ("flo:integer", "3.0"),
    ("flo:1e300", "1e300"),
    ("flo:+inf", "(exp 1000)"),
    ("flo:-inf", "(- (exp 1000))"),
    ("flo:nan", "(- (exp 1000) (exp 1000))"),
    ("bool:t", "#t"),
    ("bool:f", "#f"),
    ("char:ascii", "#\\a"),
    ("char:space", "#\\space"),
    ("char:nul", "#\\x0"),
    ("char:non-ascii", "#\\λ"),
    ("char:astral", "#\\𝄞"),
    ("str:empty", "(make-string 0 #\\a)"),
    ("str:one", "(string #\\a)"),
    ("str:ascii", "(string-append \"hello\" \"\")"),
    ("str:non-ascii", "(string-append \"λé𝄞ß\" \"\")"),
    ("str:number-like", "(string-append \"10\" \"\")"),
    ("sym", "'a"),
    ("sym:keyword", "'lambda"),
    ("nil", "'()"),
    ("list:one", "(list 1)"),
    ("list:three", "(list 1 2 3)"),
    ("list:improper", "(cons 1 2)"),
    ("list:alist", "(list (cons 'a 1) (cons 'b 2))"),
    ("list:of-strings-chars", "(list \"s\" #\\c 'q)"),
    ("list:nested", "(list (list 1 (list 2)) (vector 3))"),
    ("vec:empty", "(vector)"),
    ("vec:one", "(vector 1)"),
    ("vec:three", "(vector 1 2 3)"),
    ("vec:chars", "(vector #\\a #\\b)"),
    ("vec:mixed", "(vector '() \"s\" (list 1))"),
    ("proc:builtin", "car"),
    ("proc:closure", "(lambda (x) x)"),
    ("proc:variadic", "(lambda args args)"),
    ("proc:continuation", "(call/cc (lambda (k) k))"),
    ("macro-value", "and"),
    ("unspecified", "(if #f #f)"),
    // (appended so that the indices above stay stable)
    ("int:8", "8"),
    ("int:16", "16"),
    ("char:non-ascii-digit", "#\\x664"),
    ("char:superscript-digit", "#\\xb2"),
];

/// arguments that are requested sizes: values above 10^6 there are outside the property's quantifier
fn size_args(name: &str) -> &'static [usize] {
    match name {
        "make-vector" | "make-string" => &[0],
        "expt" | "pow" => &[1],
        _ => &[],
    }
}

fn is_huge(label: &str) -> bool {
    matches!(label, "int:i32max" | "int:2^31" | "int:2^32" | "int:i64max" | "big:2^63" | "big:large" | "flo:1e300" | "flo:+inf" | "rat:big")
}

pub fn procedures(vm: &Vm) -> Vec<String> {
    let mut v: Vec<String> = vm.global_symbols().iter().map(|s| s.to_string()).collect();
    v.sort();
    v.dedup();
    // only names bound to procedures (macros and data are exercised elsewhere); decided by evaluation
    v
}

#[derive(Clone, Debug)]
pub enum Case {
    Call { proc: String, args: Vec<usize>, shared: bool },
    Text(String),
    Program { label: String, src: String },
    EvalCell { label: String, cell: Cell },
    Sliced { src: String, budget: usize },
}

const INSTR_BUDGET: usize = 3_000_000;

const CIRCULAR: [(&str, &str); 23] = [
    ("circular-list:list?", "(define c (list 1 2 3)) (set-cdr! (cdr (cdr c)) c) (list? c)"),
    ("circular-list:length", "(define c (list 1 2 3)) (set-cdr! (cdr (cdr c)) c) (length c)"),
    ("circular-list:equal?", "(define c (list 1 2 3)) (set-cdr! (cdr (cdr c)) c) (define d (list 1 2 3)) (set-cdr! (cdr (cdr d)) d) (equal? c d)"),
    ("circular-list:equal?-with-finite", "(define c (list 1 2 3)) (set-cdr! (cdr (cdr c)) c) (equal? c (list 1 2 3))"),
    ("circular-list:display", "(define c (list 1 2 3)) (set-cdr! (cdr (cdr c)) c) (display c)"),
    ("circular-list:write", "(define c (list 1 2 3)) (set-cdr! (cdr (cdr c)) c) (write c)"),
    ("circular-list:as-value", "(define c (list 1 2 3)) (set-cdr! (cdr (cdr c)) c) c"),
    ("circular-list:car-cycle-as-value", "(define c (list 1 2 3)) (set-car! c c) c"),
    ("circular-list:car-cycle-equal?", "(define c (list 1 2)) (set-car! c c) (define d (list 1 2)) (set-car! d d) (equal? c d)"),
    ("circular-list:car-cycle-display", "(define c (list 1 2)) (set-car! c c) (display c)"),
    ("self-vector:vector-set!:as-value", "(define v (vector 1 2)) (vector-set! v 0 v) v"),
    ("self-vector:equal?", "(define v (vector 1 2)) (vector-set! v 0 v) (define w (vector 1 2)) (vector-set! w 0 w) (equal? v w)"),
    ("self-vector:display", "(define v (vector 1 2)) (vector-set! v 0 v) (display v)"),
    ("self-vector:write", "(define v (vector 1 2)) (vector-set! v 0 v) (write v)"),
    ("self-vector:vector-fill!", "(define v (vector 1 2)) (vector-fill! v v) (vector-length v)"),
    ("self-vector:vector->list", "(define v (vector 1 2)) (vector-set! v 1 v) (length (vector->list v))"),
    ("circular-list:lasso-length", "(define l (list 1 2 3 4 5)) (set-cdr! (list-tail l 4) (cdr l)) (length l)"),
    ("circular-list:lasso-list?", "(define l (list 1 2 3 4 5 6)) (set-cdr! (list-tail l 5) (cdr (cdr l))) (list? l)"),
    ("circular-list:lasso-length-last-to-itself", "(define l (list 1 2 3)) (set-cdr! (cdr (cdr l)) (cdr (cdr l))) (length l)"),
    ("circular-list:lasso-list-tail-and-ref", "(define l (list 1 2 3 4)) (set-cdr! (list-tail l 3) (cdr l)) (list (list-ref l 9) (car (list-tail l 7)))"),
    ("circular-list:lasso-memq-assq", "(define l (list 1 2 3 4)) (set-cdr! (list-tail l 3) (cdr l)) (if (memq 3 l) (length l) 'no)"),
    ("circular-list:length-in-cond", "(define c (list 1)) (set-cdr! c c) (if (list? c) (length c) 'not-a-list)"),
    ("mutual-cycle:as-value", "(define a (list 1)) (define b (vector a)) (set-car! a b) a"),
];

fn sized_programs() -> Vec<(String, String)> {
    let mut v: Vec<(String, String)> = vec![];
    let deep = |open: &str, close: &str, n: usize, core: &str| format!("{}{}{}", open.repeat(n), core, close.repeat(n));
    for n in [8usize, 32, 64] {
        v.push((format!("nesting:list:{}", n), format!("(quote {})", deep("(", ")", n, "x"))));
        v.push((format!("nesting:vector:{}", n), format!("(quote {})", deep("#(", ")", n, "1"))));
        v.push((format!("nesting:quotes:{}", n), format!("(quote {}x)", "'".repeat(n))));
        v.push((format!("nesting:calls:{}", n), deep("(+ 1 ", ")", n, "0")));
        v.push((format!("nesting:lambdas:{}", n), format!("({} 5 {})", "((lambda (x) ".repeat(n), " x) x)".repeat(n).replacen(" x) x)", " x) 5)", 0))));
        v.push((format!("nesting:let:{}", n), format!("{} 1 {}", "(let ((a 1)) ".repeat(n), ")".repeat(n))));
        v.push((format!("nesting:quasiquote:{}", n), format!("{} 1 {}", "`(a ,".repeat(n), ")".repeat(n))));
        v.push((format!("nesting:if:{}", n), format!("{} 1 {}", "(if #t ".repeat(n), " 2)".repeat(n))));
        v.push((format!("nesting:begin:{}", n), format!("{} 1 {}", "(begin ".repeat(n), ")".repeat(n))));
        v.push((format!("nesting:cond:{}", n), format!("{} 1 {}", "(cond (#f 0) (else ".repeat(n), "))".repeat(n))));
    }
    for (l, s) in [
        // histories: the API must stay total across evaluations that fail in between
        ("history:deep-continuation-reentered-after-an-error", "(define k #f) (define (deep n) (if (= n 0) (call/cc (lambda (c) (set! k c) 0)) (+ 1 (deep (- n 1))))) (deep 300) (car 5) (define again #t) (if again (begin (set! again #f) (k 5)) 'done)"),
        ("history:deep-continuation-reentered-after-a-syntax-error", "(define k #f) (define (deep n) (if (= n 0) (call/cc (lambda (c) (set! k c) 0)) (+ 1 (deep (- n 1))))) (deep 60) (if) (define again #t) (if again (begin (set! again #f) (k 5)) 'done)"),
        ("history:deep-recursion-after-many-errors", "(define (deep n) (if (= n 0) 0 (+ 1 (deep (- n 1))))) (car 1) (vector-ref (vector) 0) (undefined-name) (deep 5000) ((lambda (x) x)) (deep 5000)"),
        ("size:make-vector-1e6", "(vector-length (make-vector 1000000 0))"),
        ("size:make-string-1e6", "(string-length (make-string 1000000 #\\a))"),
        ("size:expt-2-1e6", "(even? (expt 2 1000000))"),
        ("size:expt-1/2-1e6", "(expt 1/2 1000000)"),
        ("size:expt-1.5-1e6", "(expt 1.5 1000000)"),
        ("size:string-append-1e6", "(string-length (string-append (make-string 500000 #\\a) (make-string 500000 #\\b)))"),
        ("size:list->vector-1e5", "(vector-length (list->vector (vector->list (make-vector 100000 1))))"),
        ("size:number->string-big", "(string-length (number->string (expt 7 100000)))"),
        ("size:string->number-long", "(string->number (make-string 100000 #\\9))"),
        ("size:apply-many-args", "(apply + (vector->list (make-vector 100000 1)))"),
        ("size:make-vector-of-vectors", "(vector-length (make-vector 1000 (make-vector 1000 0)))"),
        ("size:string->list-1e5", "(length (string->list (make-string 100000 #\\λ)))"),
        ("size:vector-fill-1e6", "(let ((v (make-vector 1000000 0))) (vector-fill! v 'x) (vector-ref v 999999))"),
        ("size:reverse-1e5", "(car (reverse (vector->list (make-vector 100000 1))))"),
        ("size:append-1e5", "(length (append (vector->list (make-vector 50000 1)) (vector->list (make-vector 50000 2))))"),
        ("size:list-tail-1e6-on-short", "(list-tail (list 1 2 3) 1000000)"),
        ("size:make-vector-negative", "(make-vector -1 0)"),
        ("size:make-string-fraction", "(make-string 1/2 #\\a)"),
        ("size:expt-negative-exponent", "(expt 2 -1)"),
        ("size:exact-inexact-big", "(exact->inexact (expt 10 400))"),
        ("size:inexact-exact-inf", "(inexact->exact (exp 1000))"),
        ("size:inexact-exact-nan", "(inexact->exact (- (exp 1000) (exp 1000)))"),
        ("size:round-nan", "(round (- (exp 1000) (exp 1000)))"),
        ("size:number->string-nan-16", "(number->string (- (exp 1000) (exp 1000)) 16)"),
        ("size:number->string-inf-2", "(number->string (exp 1000) 2)"),
        ("size:number->string-radix-0", "(number->string 10 0)"),
        ("size:number->string-radix-1", "(number->string 10 1)"),
        ("size:number->string-radix-37", "(number->string 10 37)"),
        ("size:string->number-radix-0", "(string->number \"10\" 0)"),
        ("size:string->number-radix-1", "(string->number \"10\" 1)"),
        ("size:string->number-radix-37", "(string->number \"10\" 37)"),
        ("size:string->number-radix-big", "(string->number \"10\" 4294967298)"),
        ("size:integer->char-big", "(integer->char 123456789012345678901234567890)"),
        ("size:random-integer-0", "(random-integer 0)"),
        ("size:random-integer-big", "(random-integer 123456789012345678901234567890)"),
        ("size:quotient-float-args", "(quotient 7.5 2)"),
        ("size:modulo-rational", "(modulo 7/2 2)"),
        ("size:remainder-inf", "(remainder (exp 1000) 2)"),
        ("size:sqrt-negative", "(sqrt -4)"),
        ("size:log-0", "(log 0)"),
        ("size:atan-0-0", "(atan 0 0)"),
        ("size:vector-copy-range-reversed", "(vector-copy (vector 1 2 3) 2 1)"),
        ("size:string-copy-range-reversed", "(string-copy \"abc\" 2 1)"),
        ("size:symbol->string-odd", "(symbol->string (string->symbol \"\\\\x\"))"),
        ("size:string->symbol-empty", "(symbol->string (string->symbol \"\"))"),
        ("size:apply-improper", "(apply + 1 2)"),
        ("size:eval-unbound", "(eval 'no-such-variable-here)"),
        ("size:eval-improper-form", "(eval '(+ 1 . 2))"),
        ("size:eval-vector-form", "(eval (vector 1 2))"),
        ("size:eval-procedure-object", "(eval car)"),
        ("size:eval-list-with-procedure", "(eval (list car ''(1 2)))"),
        ("size:eval-quoted-procedure", "(eval (list 'quote car))"),
        ("size:eval-quoted-continuation", "(eval (list 'quote (call/cc (lambda (k) k))))"),
        ("size:define-syntax-bad", "(define-syntax)"),
        ("size:define-syntax-bad2", "(define-syntax foo)"),
        ("size:define-syntax-bad3", "(define-syntax foo (syntax-rules))"),
        ("size:define-syntax-bad4", "(define-syntax foo (syntax-rules () (x)))"),
        ("size:define-syntax-bad5", "(define-syntax 5 (syntax-rules () ((_) 1)))"),
        ("size:lambda-bad-formals", "(lambda (1) 1)"),
        ("size:lambda-no-body", "(lambda (x))"),
        ("size:let-bad-binding", "(let ((x)) x)"),
        ("size:let-bad-binding2", "(let (x) x)"),
        ("size:let-bad-binding3", "(let ((x 1 2)) x)"),
        ("size:named-let-bad", "(let loop)"),
        ("size:cond-empty", "(cond)"),
        ("size:cond-bad-clause", "(cond 1)"),
        ("size:case-empty", "(case)"),
        ("size:case-bad-clause", "(case 1 (2))"),
        ("size:quasiquote-bare-unquote", "(unquote x)"),
        ("size:quasiquote-dotted-unquote", "`(1 . ,(+ 1 2))"),
        ("size:quasiquote-no-arg", "(quasiquote)"),
        ("size:quote-no-arg", "(quote)"),
        ("size:quote-two-args", "(quote 1 2)"),
        ("size:set!-bad", "(set! 5 1)"),
        ("size:set!-one-arg", "(set! x)"),
        ("size:define-bad", "(define)"),
        ("size:define-number", "(define 5 1)"),
        ("size:define-nested-formals", "(define ((f a) b) a)"),
        ("size:if-too-many", "(if 1 2 3 4)"),
        ("size:call-string", "(\"not a procedure\" 1)"),
        ("size:call-vector", "(#(1 2) 0)"),
        ("size:call-improper", "(car . (1))"),
        ("size:delay-no-arg", "(delay)"),
        ("size:force-non-promise", "(force 5)"),
        ("size:force-list", "(force (list 1 2))"),
        ("size:continuation-no-args", "((call/cc (lambda (k) k)))"),
        ("size:continuation-many-args", "(call/cc (lambda (k) (k 1 2 3)))"),
        ("size:call/cc-non-procedure", "(call/cc 5)"),
        ("size:call/cc-arity", "(call/cc (lambda () 1))"),
        ("size:map-unequal", "(map + '(1 2) '(1))"),
        ("size:map-non-list", "(map car 5)"),
        ("size:for-each-improper", "(for-each display '(1 . 2))"),
        ("size:string-set!-literal", "(let ((s \"abc\")) (string-set! s 0 #\\λ) s)"),
        ("size:term-rows", "(list (term-rows) (term-cols) (time-utc))"),
    ] {
        v.push((l.to_string(), s.to_string()));
    }
    v
}

fn api_cells() -> Vec<(String, Cell)> {
    let specials: Vec<(&str, Cell)> = vec![
        ("procedure", Cell::Procedure(Some("(λ (x))".into()))),
        ("procedure-anon", Cell::Procedure(None)),
        ("macro", Cell::Macro),
        ("continuation", Cell::Continuation),
        ("void", Cell::Void),
        ("undefined", Cell::Undefined),
    ];
    let mut out = vec![];
    for (n, c) in specials {
        let q = |x: Cell| Cell::new_list(vec![Cell::Symbol("quote".into()), x]);
        out.push((format!("{}:as-expression", n), c.clone()));
        out.push((format!("{}:as-operator", n), Cell::new_list(vec![c.clone(), Cell::Number(Number::Fixnum(1))])));
        out.push((format!("{}:as-operand", n), Cell::new_list(vec![Cell::Symbol("list".into()), c.clone()])));
        out.push((format!("{}:quoted", n), q(c.clone())));
        out.push((format!("{}:quoted-in-list", n), q(Cell::new_list(vec![Cell::Number(Number::Fixnum(1)), c.clone()]))));
        out.push((format!("{}:quoted-in-vector", n), q(Cell::Vector(vec![c.clone()]))));
        out.push((format!("{}:in-quasiquote", n), Cell::new_list(vec![Cell::Symbol("quasiquote".into()), Cell::new_list(vec![c.clone()])])));
        out.push((format!("{}:as-define-name", n), Cell::new_list(vec![Cell::Symbol("define".into()), c.clone(), Cell::Number(Number::Fixnum(1))])));
        out.push((format!("{}:as-lambda-formal", n), Cell::new_list(vec![Cell::Symbol("lambda".into()), Cell::new_list(vec![c.clone()]), Cell::Number(Number::Fixnum(1))])));
        out.push((format!("{}:as-vector-literal-element", n), Cell::Vector(vec![c.clone()])));
        out.push((format!("{}:as-if-test", n), Cell::new_list(vec![Cell::Symbol("if".into()), c.clone(), Cell::Number(Number::Fixnum(1)), Cell::Number(Number::Fixnum(2))])));
    }
    // floats that the reader cannot spell
    out.push(("nan:as-expression".into(), Cell::Number(Number::Float(f64::NAN))));
    out.push(("inf:quoted".into(), Cell::new_list(vec![Cell::Symbol("quote".into()), Cell::Number(Number::Float(f64::INFINITY))])));
    out.push(("improper-application".into(), Cell::new_improper_list(vec![Cell::Symbol("+".into()), Cell::Number(Number::Fixnum(1))], Cell::Number(Number::Fixnum(2)))));
    out.push(("symbol-with-spaces".into(), Cell::Symbol("a b".into())));
    out.push(("empty-symbol".into(), Cell::Symbol(String::new())));
    out
}

struct Plan {
    procs: Vec<String>,
    p: usize,
    n_call01: u64,
    n_call2: u64,
    n_call_more: u64,
    /// per procedure: 117 calls that pass one aggregate twice with small indices between and after
    n_alias: u64,
    n_text: u64,
    programs: Vec<(String, String)>,
    cells: Vec<(String, Cell)>,
    n_sliced: u64,
}

impl Plan {
    fn new(ctx: &Ctx) -> Plan {
        let vm = Vm::new();
        let procs = procedures(&vm);
        let p = PALETTE.len();
        let np = procs.len() as u64;
        let mut programs: Vec<(String, String)> = CIRCULAR.iter().map(|(a, b)| (a.to_string(), b.to_string())).collect();
        programs.extend(sized_programs());
        // quick samples arity 2, thorough is exhaustive
        let n_call2 = if ctx.quick() { np * 400 } else { np * (p * p) as u64 };
        Plan {
            procs,
            p,
            n_call01: np * (1 + p as u64),
            n_call2,
            n_call_more: if ctx.quick() { 150_000 } else { 3_000_000 },
            n_alias: np * 117,
            n_text: if ctx.quick() { 100_000 } else { 2_000_000 },
            programs,
            cells: api_cells(),
            n_sliced: 600,
        }
    }
    fn total(&self) -> u64 {
        self.n_call01 + self.n_call2 + self.n_call_more + self.n_alias + self.n_text + self.programs.len() as u64 + self.cells.len() as u64 + self.n_sliced
    }
    fn case(&self, ctx: &Ctx, mut i: u64) -> Case {
        let np = self.procs.len() as u64;
        let p = self.p as u64;
        if i < self.n_call01 {
            let proc = self.procs[(i / (1 + p)) as usize].clone();
            let a = i % (1 + p);
            return Case::Call { proc, args: if a == 0 { vec![] } else { vec![(a - 1) as usize] }, shared: false };
        }
        i -= self.n_call01;
        if i < self.n_call2 {
            if ctx.quick() {
                let mut rng = ctx.rng("c06-call2", i);
                let proc = self.procs[(i % np) as usize].clone();
                // the first 225 of the 400 pairs per procedure are all ordered pairs of the numeric
                // boundary values (0, +-1, i32/i64 extremes, 2^63, non-canonical bignum, integer-valued
                // rational, infinities, NaN, the radixes 8 and 16); the rest are sampled from the whole palette
                const BOUNDARY: [usize; 15] = [0, 1, 2, 7, 8, 9, 11, 12, 13, 16, 20, 27, 29, 62, 63];
                let j = (i / np) as usize;
                if j < 225 {
                    return Case::Call { proc, args: vec![BOUNDARY[j / 15], BOUNDARY[j % 15]], shared: false };
                }
                return Case::Call { proc, args: vec![rng.usize(self.p), rng.usize(self.p)], shared: rng.chance(1, 8) };
            }
            let proc = self.procs[(i / (p * p)) as usize].clone();
            let r = i % (p * p);
            return Case::Call { proc, args: vec![(r / p) as usize, (r % p) as usize], shared: (r / p) == (r % p) && i % 2 == 0 };
        }
        i -= self.n_call2;
        if i < self.n_call_more {
            let mut rng = ctx.rng("c06-callN", i);
            let proc = self.procs[rng.usize(self.procs.len())].clone();
            let n = 3 + rng.usize(3);
            let mut args: Vec<usize> = (0..n).map(|_| rng.usize(self.p)).collect();
            // one call in four passes its first argument again at a later position, as the very same
            // object (a vector copied onto itself, a list appended to itself ...), with small integers between
            if rng.chance(1, 4) {
                let k = 1 + rng.usize(n - 1);
                args[k] = args[0];
                for (j, a) in args.iter_mut().enumerate() {
                    if j != 0 && j != k && rng.bool() {
                        *a = *rng.pick(&[0usize, 1, 3]);
                    }
                }
                return Case::Call { proc, args, shared: true };
            }
            return Case::Call { proc, args, shared: rng.chance(1, 8) };
        }
        i -= self.n_call_more;
        if i < self.n_alias {
            // (proc X i X), (proc X i X j), (proc X i X j k) for X a 3-element vector / list / 5-character
            // string passed twice as the same object and i, j, k in 0..2
            let pidx = |name: &str| PALETTE.iter().position(|p| p.0 == name).unwrap();
            let proc = self.procs[(i / 117) as usize].clone();
            let r = (i % 117) as usize;
            let x = [pidx("vec:three"), pidx("list:three"), pidx("str:ascii")][r / 39];
            let small = [pidx("int:0"), pidx("int:1"), pidx("int:2")];
            let q = r % 39;
            let args = if q < 3 {
                vec![x, small[q], x]
            } else if q < 12 {
                vec![x, small[(q - 3) / 3], x, small[(q - 3) % 3]]
            } else {
                let t = q - 12;
                vec![x, small[t / 9], x, small[(t / 3) % 3], small[t % 3]]
            };
            return Case::Call { proc, args, shared: true };
        }
        i -= self.n_alias;
        if i < self.n_text {
            let mut rng = ctx.rng("c06-text", i);
            return Case::Text(c11::fuzz_text(&mut rng, i));
        }
        i -= self.n_text;
        if (i as usize) < self.programs.len() {
            let (l, s) = self.programs[i as usize].clone();
            return Case::Program { label: l, src: s };
        }
        i -= self.programs.len() as u64;
        if (i as usize) < self.cells.len() {
            let (l, c) = self.cells[i as usize].clone();
            return Case::EvalCell { label: l, cell: c };
        }
        i -= self.cells.len() as u64;
        let mut rng = ctx.rng("c06-sliced", i);
        let progs = ["(+ 1 (car 5))", "(define (f n) (if (= n 0) (undefined-thing) (+ 1 (f (- n 1))))) (f 20)", "(vector-ref (vector 1 2) 5)", "(error 'x 1 2)", "((lambda (x) x))", "(let loop ((i 0)) (if (< i 50) (loop (+ i 1)) (car '())))", "(call/cc (lambda (k) (k (car 7))))", "(string-ref \"\" 0)"];
        Case::Sliced { src: rng.pick::<&str>(&progs).to_string(), budget: 1 + rng.usize(3) }
    }
}

fn call_expr(proc: &str, args: &[usize], shared: bool) -> String {
    if args.is_empty() {
        return format!("({})", proc);
    }
    let mut binds = vec![];
    let mut names = vec![];
    for (i, a) in args.iter().enumerate() {
        if shared && i > 0 && args[i] == args[0] {
            names.push("a0".to_string());
            continue;
        }
        binds.push(format!("(a{} {})", i, PALETTE[*a].1));
        names.push(format!("a{}", i));
    }
    format!("(let ({}) ({} {}))", binds.join(" "), proc, names.join(" "))
}

fn kinds(args: &[usize]) -> String {
    format!("({})", args.iter().map(|a| PALETTE[*a].0).collect::<Vec<_>>().join(","))
}

/// coarse kind tuple for signatures: the label up to the first ':' (value class), keeping full
/// labels for the boundary values that matter
fn coarse(args: &[usize]) -> String {
    format!("({})", args.iter().map(|a| PALETTE[*a].0).collect::<Vec<_>>().join(","))
}

struct Runner {
    vm: Vm,
    fresh: bool,
}

impl Runner {
    fn new() -> Runner {
        Runner { vm: Vm::new(), fresh: true }
    }
    fn reset(&mut self) {
        self.vm = Vm::new();
        self.fresh = true;
    }
    /// evaluate every form of src under the instruction budget; Err(kind) is a violation kind
    fn eval_src(&mut self, src: &str) -> Result<String, String> {
        let mut rest: &str = src;
        let mut last = String::new();
        loop {
            let parsed = match catch(|| marwood::parse::parse_text(rest)) {
                Err(p) => return Err(format!("panic:{}:{}", p.file(), p.norm_message())),
                Ok(Err(e)) => {
                    match catch(|| e.to_string()) {
                        Ok(_) => {}
                        Err(p) => return Err(format!("error-display-panics:{}", p.norm_message())),
                    }
                    return Ok("read-error".into());
                }
                Ok(Ok(x)) => x,
            };
            let (cell, r) = parsed;
            match self.eval_cell(&cell) {
                Ok(s) => last = s,
                Err(k) => return Err(k),
            }
            match r {
                Some(r) => rest = r,
                None => return Ok(last),
            }
        }
    }
    fn eval_cell(&mut self, cell: &Cell) -> Result<String, String> {
        self.fresh = false;
        let vm = &mut self.vm;
        let r = catch(|| match vm.prepare_eval(cell) {
            Ok(()) => vm.run_count(INSTR_BUDGET).map(|o| o.map(|c| c.is_pair())),
            Err(e) => Err(e),
        });
        match r {
            Err(p) => {
                self.reset();
                Err(format!("panic:{}:{}", p.file(), p.norm_message()))
            }
            Ok(Ok(None)) => {
                self.reset();
                Err("instruction-budget-exhausted".into())
            }
            Ok(Ok(Some(_))) => Ok("value".into()),
            Ok(Err(e)) => match catch(|| e.to_string()) {
                Ok(_) => Ok("error".into()),
                Err(p) => Err(format!("error-display-panics:{}", p.norm_message())),
            },
        }
    }
    /// Ok(true): (+ 1 2) is 3. Ok(false): it is not, but ((lambda (x) x) 3) still is 3 - the evaluated
    /// text may legitimately have rebound the global `+` (`lambda` cannot be rebound), so this is no verdict.
    fn canary(&mut self) -> Result<bool, String> {
        match self.canary_plus() {
            Ok(()) => Ok(true),
            Err(k) => {
                let forms = parse_forms("((lambda (x) x) 3)");
                let vm = &mut self.vm;
                match catch(|| vm.eval(&forms[0])) {
                    Ok(Ok(Cell::Number(n))) if format!("{}", n) == "3" => Ok(false),
                    _ => Err(k),
                }
            }
        }
    }
    fn canary_plus(&mut self) -> Result<(), String> {
        let forms = parse_forms("(+ 1 2)");
        let vm = &mut self.vm;
        match catch(|| vm.eval(&forms[0])) {
            Ok(Ok(Cell::Number(n))) if format!("{}", n) == "3" => Ok(()),
            Ok(other) => Err(format!("vm-unusable-afterwards:{}", match other {
                Ok(c) => format!("value {:#}", c),
                Err(e) => format!("error {}", catch(|| e.to_string()).unwrap_or_default()),
            })),
            Err(p) => Err(format!("vm-unusable-afterwards:panic {}", p.norm_message())),
        }
    }
}

fn run_case(r: &mut Runner, c: &Case, rep: &mut Report, id: (u64, u64), verbose: bool) {
    rep.evaluations += 1;
    let (sig_head, src_shown, res): (String, String, Result<String, String>) = match c {
        Case::Call { proc, args, shared } => {
            // requested sizes above 10^6 are outside the quantifier
            for pos in size_args(proc) {
                if let Some(a) = args.get(*pos) {
                    if is_huge(PALETTE[*a].0) {
                        rep.count("skipped_oversized_request", 1);
                        return;
                    }
                }
            }
            let e = call_expr(proc, args, *shared);
            rep.count("builtin_calls", 1);
            let res = r.eval_src(&e);
            (format!("proc={}:args={}", proc, coarse(args)), e, res)
        }
        Case::Text(t) => {
            rep.count("texts_evaluated", 1);
            // bound the damage of accidental definitions: fresh VM every so often is handled by the caller
            let res = r.eval_src(t);
            ("text".to_string(), t.clone(), res)
        }
        Case::Program { label, src } => {
            rep.count("programs", 1);
            rep.see("programs", label);
            r.reset();
            let res = r.eval_src(src);
            (format!("program={}", label), src.clone(), res)
        }
        Case::EvalCell { label, cell } => {
            rep.count("cells_evaluated", 1);
            rep.see("api_cells", label);
            let res = r.eval_cell(cell);
            (format!("eval-cell={}", label), format!("{:?}", cell), res)
        }
        Case::Sliced { src, budget } => {
            rep.count("sliced_erroring_programs", 1);
            r.reset();
            let mut out: Result<String, String> = Ok("value".into());
            for f in parse_forms(src) {
                let vm = &mut r.vm;
                let b = *budget;
                let rr = catch(|| -> Result<bool, marwood::error::Error> {
                    vm.prepare_eval(&f)?;
                    let mut n = 0;
                    loop {
                        match vm.run_count(b)? {
                            Some(_) => return Ok(true),
                            None => {
                                n += 1;
                                if n > 2_000_000 {
                                    return Ok(false);
                                }
                            }
                        }
                    }
                });
                out = match rr {
                    Err(p) => Err(format!("panic:{}:{}", p.file(), p.norm_message())),
                    Ok(Ok(true)) => Ok("value".into()),
                    Ok(Ok(false)) => Err("sliced-run-never-finishes".into()),
                    Ok(Err(e)) => match catch(|| e.to_string()) {
                        Ok(_) => Ok("error".into()),
                        Err(p) => Err(format!("error-display-panics:{}", p.norm_message())),
                    },
                };
                if out.is_err() {
                    break;
                }
            }
            (format!("sliced:budget={}", budget), src.clone(), out)
        }
    };
    if verbose {
        println!("{} -> {:?}", src_shown.chars().take(200).collect::<String>(), res);
    }
    let wit = || Json::obj().set("source", src_shown.chars().take(2000).collect::<String>()).set("case", sig_head.as_str());
    match res {
        Err(kind) => {
            let kind = if kind == "instruction-budget-exhausted" && matches!(c, Case::Text(_)) {
                // arbitrary text may well be a non-terminating program: inconclusive, not a verdict
                rep.count("texts_hitting_instruction_budget", 1);
                r.reset();
                return;
            } else {
                kind
            };
            let head = match c {
                Case::Text(_) => "text".to_string(),
                _ => sig_head.clone(),
            };
            rep.violation(&format!("{}:bad={}:build={}", head, kind, BUILD.with(|b| b.borrow().clone())), format!("{} :: {}", src_shown.chars().take(300).collect::<String>(), kind), wit(), id);
            r.reset();
        }
        Ok(outcome) => {
            match outcome.as_str() {
                "error" => rep.count("errors_returned_and_rendered", 1),
                "value" => rep.count("values_returned", 1),
                _ => rep.count("read_errors", 1),
            }
            let can = r.canary();
            if let Err(k) = can {
                rep.violation(&format!("{}:bad={}", sig_head, k.split(':').next().unwrap_or("vm-unusable")), format!("after {} the VM evaluates neither (+ 1 2) nor ((lambda (x) x) 3): {}", src_shown.chars().take(300).collect::<String>(), k), wit(), id);
                r.reset();
            } else if can == Ok(false) {
                // e.g. the text contained (set! + -865): start over with a fresh VM
                rep.count("canary_global_rebound_by_the_text", 1);
                r.reset();
            } else {
                rep.count("canaries_ok", 1);
                match c {
                    Case::Call { proc, args, .. } => {
                        rep.nontrivial(hash_str(&format!("{}{}", proc, kinds(args))));
                    }
                    _ => rep.nontrivial(hash_str(&src_shown)),
                }
            }
        }
    }
}

thread_local! {
    static BUILD: std::cell::RefCell<String> = std::cell::RefCell::new(String::new());
}

pub fn run(ctx: &Ctx, rep: &mut Report) {
    BUILD.with(|b| *b.borrow_mut() = ctx.build.clone());
    let plan = Plan::new(ctx);
    let total = plan.total();
    let verbose = ctx.is_replay() || std::env::var("MWV_VERBOSE").is_ok();
    // this shard takes the cases i = j * nshards + shard (strided, so that every lane is spread over
    // all shards); children are driven over the local index j in [0, per)
    let per = (total + ctx.nshards - 1) / ctx.nshards;
    let real = |j: u64| j * ctx.nshards + ctx.shard;
    if ctx.replay.is_some() || sandbox::child_range(ctx).is_some() {
        let (s, e) = match ctx.replay {
            Some(i) => (i, i + 1),
            None => sandbox::child_range(ctx).unwrap(),
        };
        let mut r = Runner::new();
        for j in s..e {
            if ctx.replay.is_none() {
                sandbox::journal_begin(j);
            }
            let index = real(j);
            if index >= total {
                continue;
            }
            let c = plan.case(ctx, index);
            if j % 500 == 0 {
                r.reset();
            }
            if verbose {
                match &c {
                    Case::Text(t) => println!("TEXT-BEGIN\n{}\nTEXT-END", t),
                    other => println!("{:?}", other),
                }
            }
            run_case(&mut r, &c, rep, (ctx.shard, j), verbose);
            if rep.want_sample() && index % 50_021 == 17 {
                if let Case::Call { proc, args, shared } = &c {
                    rep.sample(Json::obj().set("kind", "builtin-call").set("expr", call_expr(proc, args, *shared)).set("arg_kinds", kinds(args)));
                }
            }
        }
        if verbose {
            for v in &rep.violations {
                println!("VIOLATION {} :: {}", v.sig, v.detail);
            }
        }
        return;
    }
    rep.max("max_procedures_in_matrix", plan.procs.len() as u64);
    rep.max("max_palette_size", plan.p as u64);
    // parent: drive children over [lo, hi)
    let cfg = sandbox::DriveCfg {
        segment: 20_000,
        idle: Duration::from_secs(10),
        limits: sandbox::Limits { stack_kib: Some(8192), as_kib: Some(2 << 20) },
        extra: None,
    };
    let culprits = drive_range(ctx, 0, per, &cfg, rep);
    for c in culprits {
        if real(c.index) >= total {
            continue;
        }
        let case = plan.case(ctx, real(c.index));
        let head = match &case {
            Case::Call { proc, args, .. } => format!("proc={}:args={}", proc, coarse(args)),
            Case::Text(_) => "text".into(),
            Case::Program { label, .. } => format!("program={}", label),
            Case::EvalCell { label, .. } => format!("eval-cell={}", label),
            Case::Sliced { budget, .. } => format!("sliced:budget={}", budget),
        };
        let shown = match &case {
            Case::Call { proc, args, shared } => call_expr(proc, args, *shared),
            Case::Text(t) => t.clone(),
            Case::Program { src, .. } => src.clone(),
            Case::EvalCell { cell, .. } => format!("{:?}", cell),
            Case::Sliced { src, .. } => src.clone(),
        };
        if c.confirmed {
            let kind = sandbox::death_kind(&c.exit, &c.stderr_tail);
            if matches!(case, Case::Text(_)) && (kind == "alloc-failure-abort" || kind == "hang") {
                // arbitrary text may be a program that recurses or loops forever: memory exhaustion and
                // non-termination of such a program are not verdicts
                rep.count("texts_exhausting_memory_or_time", 1);
                continue;
            }
            rep.violation(
                &format!("{}:bad={}:build={}", head, kind, ctx.build),
                format!("{} kills or hangs the process: {:?}", shown.chars().take(300).collect::<String>(), c.exit),
                Json::obj().set("source", shown.chars().take(2000).collect::<String>()).set("case", head.as_str()).set("death", kind),
                (ctx.shard, c.index),
            );
        }
    }
}

/// like sandbox::drive but over an arbitrary index range
fn drive_range(ctx: &Ctx, lo: u64, hi: u64, cfg: &sandbox::DriveCfg, rep: &mut Report) -> Vec<sandbox::Culprit> {
    // sandbox::drive runs 0..total; shift by running it on a context whose child range is absolute
    sandbox::drive_from(ctx, "c06", lo, hi, cfg, rep)
}
