//! C18 — symbols are interned: same name iff eq?, across collections and conversions.
use crate::diff::{run_form, show_outcome, MwOutcome, MwVm};
use crate::engines::c03::{install, AuditLog, Schedule};
use crate::engines::c05::parse_forms;
use crate::engines::c10::gen_char;
use crate::json::Json;
use crate::mw::catch;
use crate::refscheme::D;
use crate::report::Report;
use crate::rng::{hash_str, Rng};
use crate::Ctx;
use marwood::cell::Cell;
use marwood::parse;
use std::cell::RefCell;
use std::rc::Rc;

fn gen_name(rng: &mut Rng) -> String {
    match rng.usize(12) {
        0 => String::new(),
        1 => rng.pick::<&str>(&["a", "abc", "x1", "list", "lambda-ish", "Hello", "hello"]).to_string(),
        2 => rng.pick::<&str>(&[" ", "a b", "a\tb", "\n", "tab\there"]).to_string(),
        3 => rng.pick::<&str>(&["(", ")", "a(b", "\"", "a\"b", ";", "a;b", "'", "`", ",", "#", "#t", "|", "a|b", "[x]", "{}"]).to_string(),
        4 => rng.pick::<&str>(&["\\", "a\\b", "\\x41;", "a\\x41;b", "\\\\", "x\\", "\\n", "\\x;", "\\x41"]).to_string(),
        5 => rng.pick::<&str>(&["1", "12abc", "1+", "-", "+", "...", ".", "-x", "+5", "1/2", "1e3", ".5"]).to_string(),
        6 => rng.pick::<&str>(&["λ", "日本語", "𝄞", "é", "ß", "a\u{2003}b", "\u{a0}", "\u{feff}x", "\u{85}"]).to_string(),
        _ => {
            let n = 1 + rng.usize(6);
            (0..n).map(|_| if rng.chance(2, 3) { *rng.pick(&['a', 'b', 'z', 'Q', '7', '-', '!', '?', '*', '.', '@', '+']) } else { gen_char(rng) }).collect()
        }
    }
}

fn string_literal(s: &str) -> String {
    format!("{:#}", Cell::String(s.to_string()))
}

/// canonical spelling of the symbol named `s`: what marwood itself writes for (string->symbol s),
/// usable as a literal only if the reader reads it back as that very symbol
fn spelling(vm: &mut MwVm, s: &str) -> Option<String> {
    let form = parse_forms(&format!("(string->symbol {})", string_literal(s)));
    let form = form.first()?.clone();
    let r = catch(|| vm.vm.eval(&form));
    match r {
        Ok(Ok(Cell::Symbol(sp))) => match catch(|| parse::parse_text(&sp)) {
            Ok(Ok((Cell::Symbol(back), None))) if back == sp => Some(sp),
            _ => None,
        },
        _ => None,
    }
}

/// The natural spelling of the symbol named `s`: the name itself, when the reader takes that text for
/// one identifier (R7RS: an identifier written without escapes names the symbol of that text). This
/// does not consult string->symbol, so the literal routes are independent of the conversion routes.
fn natural(s: &str) -> Option<String> {
    if s.is_empty() || s.contains('\\') || s.contains('|') {
        return None;
    }
    match catch(|| parse::parse_text(s)) {
        Ok(Ok((Cell::Symbol(t), None))) if t == s => Some(s.to_string()),
        _ => None,
    }
}

/// Another spelling of the same symbol: one hex escape re-written with upper-case digits and a leading
/// zero (\x3b; -> \x03B;), or, for a name that needs no escape, one of its characters written as a hex
/// escape. R7RS gives both spellings the same name. None if the reader does not take the result for one
/// identifier.
fn alternative_spelling(sp: &str, rng: &mut Rng) -> Option<String> {
    let alt = if let Some(i) = sp.find("\\x") {
        let j = sp[i..].find(';')? + i;
        let hex = &sp[i + 2..j];
        if hex.is_empty() || !hex.chars().all(|c| c.is_ascii_hexdigit()) {
            return None;
        }
        format!("{}\\x0{};{}", &sp[..i], hex.to_ascii_uppercase(), &sp[j + 1..])
    } else if !sp.contains('\\') && !sp.is_empty() {
        let chars: Vec<char> = sp.chars().collect();
        let k = rng.usize(chars.len());
        let mut out = String::new();
        for (n, c) in chars.iter().enumerate() {
            if n == k {
                out.push_str(&format!("\\x{:X};", *c as u32));
            } else {
                out.push(*c);
            }
        }
        out
    } else {
        return None;
    };
    match catch(|| parse::parse_text(&alt)) {
        Ok(Ok((Cell::Symbol(t), None))) if t == alt => Some(alt),
        _ => None,
    }
}

const ROUTES: [&str; 8] = ["literal", "quoted-list-element", "quoted-vector-element", "string->symbol", "macro-output", "eval-quoted", "string->symbol-of-computed-string", "quasiquote-element"];

/// (setup forms, expression) producing the symbol named `s` by route `r`; None if the route needs a
/// literal spelling and the name has none
fn route(r: usize, s: &str, sp: &Option<String>, uniq: &str) -> Option<(String, String)> {
    let lit = string_literal(s);
    Some(match r {
        0 => (String::new(), format!("'{}", sp.as_ref()?)),
        1 => (String::new(), format!("(car (cdr '(other {} 3)))", sp.as_ref()?)),
        2 => (String::new(), format!("(vector-ref '#(1 {}) 1)", sp.as_ref()?)),
        3 => (String::new(), format!("(string->symbol {})", lit)),
        // (in a template "..." is the ellipsis, not a symbol to produce)
        4 if sp.as_deref() == Some("...") => return None,
        4 => (format!("(define-syntax mk{u} (syntax-rules () ((_) '{sp})))", u = uniq, sp = sp.as_ref()?), format!("(mk{})", uniq)),
        5 => (String::new(), format!("(eval (list 'quote (string->symbol {})))", lit)),
        6 => {
            let chars: Vec<char> = s.chars().collect();
            let k = chars.len() / 2;
            let a: String = chars[..k].iter().collect();
            let b: String = chars[k..].iter().collect();
            (String::new(), format!("(string->symbol (string-append {} {}))", string_literal(&a), string_literal(&b)))
        }
        _ => (String::new(), format!("(car (quasiquote ({} 1)))", sp.as_ref()?)),
    })
}

fn eval_bool(vm: &mut MwVm, src: &str) -> Result<bool, String> {
    let mut last = Err("no forms".to_string());
    for f in parse_forms(src) {
        let r = run_form(vm, &f);
        last = match &r.outcome {
            MwOutcome::Value(D::Bool(b)) => Ok(*b),
            other => Err(show_outcome(other)),
        };
        if let MwOutcome::Failure(..) | MwOutcome::Panic(_) | MwOutcome::Budget = r.outcome {
            return last;
        }
    }
    last
}

fn eval_ok(vm: &mut MwVm, src: &str) -> Result<(), String> {
    for f in parse_forms(src) {
        let r = run_form(vm, &f);
        if let MwOutcome::Failure(..) | MwOutcome::Panic(_) | MwOutcome::Budget = r.outcome {
            return Err(show_outcome(&r.outcome));
        }
    }
    Ok(())
}

fn name_class(s: &str) -> &'static str {
    if s.is_empty() {
        "empty"
    } else if s.contains('\\') {
        "with-backslash"
    } else if s.chars().any(|c| c.is_whitespace()) {
        "with-whitespace"
    } else if s.chars().any(|c| "()\"';`,#|[]{}".contains(c)) {
        "with-delimiter"
    } else if s.chars().next().map(|c| c.is_ascii_digit() || c == '+' || c == '-' || c == '.').unwrap_or(false) {
        "number-like-start"
    } else if !s.is_ascii() {
        "non-ascii"
    } else {
        "plain"
    }
}

pub fn run(ctx: &Ctx, rep: &mut Report) {
    let verbose = ctx.is_replay();
    let n = ctx.cases(20_000, 300_000);
    let mut vm = MwVm::new();
    let mut since_fresh = 0;
    for index in ctx.indices(n) {
        let mut rng = ctx.rng("c18", index);
        since_fresh += 1;
        if since_fresh > 200 {
            vm = MwVm::new();
            since_fresh = 0;
        }
        rep.evaluations += 1;
        let s1 = gen_name(&mut rng);
        let s2 = match rng.usize(5) {
            0 | 1 => s1.clone(),
            4 => {
                // a different name whose text is the stored (escaped) spelling of the first name: the intern
                // table must not confuse a name with a spelling
                match natural(&s1).or_else(|| spelling(&mut vm, &s1)) {
                    Some(sp) if sp != s1 => {
                        rep.count("second_name_is_the_spelling_of_the_first", 1);
                        sp
                    }
                    _ => gen_name(&mut rng),
                }
            }
            2 => {
                // a near miss
                let mut c: Vec<char> = s1.chars().collect();
                if c.is_empty() {
                    c.push('a');
                } else {
                    let i = rng.usize(c.len());
                    c[i] = if c[i] == 'a' { 'b' } else { 'a' };
                }
                c.into_iter().collect()
            }
            _ => gen_name(&mut rng),
        };
        let sp1 = natural(&s1).or_else(|| spelling(&mut vm, &s1));
        let sp2 = natural(&s2).or_else(|| spelling(&mut vm, &s2));
        rep.count(if natural(&s1).is_some() { "names_with_natural_literal_spelling" } else { "names_needing_escaped_spelling" }, 1);
        // one case in three writes the literals of the first name with another spelling of the same name
        let sp1 = match (&sp1, rng.chance(1, 3)) {
            (Some(sp), true) => match alternative_spelling(sp, &mut rng) {
                Some(a) => {
                    rep.count("literals_written_with_an_alternative_escape", 1);
                    Some(a)
                }
                None => sp1,
            },
            _ => sp1,
        };
        let wit = Json::obj().set("name1", s1.as_str()).set("name2", s2.as_str()).set("spelling1", sp1.clone().unwrap_or_default()).set("spelling2", sp2.clone().unwrap_or_default());
        let id = (ctx.shard, index);
        let cls = name_class(&s1);
        rep.see("name_classes", cls);
        // ---- inverse laws ----
        let lit1 = string_literal(&s1);
        match eval_bool(&mut vm, &format!("(string=? (symbol->string (string->symbol {l})) {l})", l = lit1)) {
            Ok(true) => rep.count("inverse_string_symbol_string", 1),
            Ok(false) => {
                rep.violation(&format!("symbol->string-of-string->symbol-differs:{}", cls), format!("(symbol->string (string->symbol {l})) is not {l}", l = lit1), wit.clone(), id);
                continue;
            }
            Err(e) => {
                rep.violation(&format!("string->symbol-round-trip-fails:{}", cls), format!("(symbol->string (string->symbol {})) -> {}", lit1, e), wit.clone(), id);
                continue;
            }
        }
        // ---- identity across routes, evaluations and collections ----
        let r1 = rng.usize(ROUTES.len());
        let r2 = rng.usize(ROUTES.len());
        let (p1, p2) = match (route(r1, &s1, &sp1, &format!("a{}", index)), route(r2, &s2, &sp2, &format!("b{}", index))) {
            (Some(a), Some(b)) => (a, b),
            _ => {
                rep.count("route_needs_unspellable_literal", 1);
                continue;
            }
        };
        rep.see("route_pairs", &format!("{}|{}", ROUTES[r1], ROUTES[r2]));
        let expected = s1 == s2;
        let mode = rng.usize(4);
        let sched = match rng.usize(4) {
            0 => None,
            1 => Some(Schedule::EveryK(1)),
            2 => Some(Schedule::Random { seed: rng.next_u64(), one_in: 3 }),
            _ => Some(Schedule::EveryK(1 + rng.below(7))),
        };
        let log = Rc::new(RefCell::new(AuditLog::default()));
        // the auditor observes every collection, scheduled, forced or natural
        install(&mut vm, sched.as_ref().unwrap_or(&Schedule::Never), log.clone(), 3000);
        let audited_gc = |vm: &mut MwVm| -> Result<(), String> {
            vm.vm.verif_force_gc();
            if log.borrow().findings.is_empty() {
                Ok(())
            } else {
                Err("AUDIT".into())
            }
        };
        let setup = format!("{} {}", p1.0, p2.0);
        let result: Result<bool, String> = (|| {
            eval_ok(&mut vm, &setup)?;
            match mode {
                0 => eval_bool(&mut vm, &format!("(eq? {} {})", p1.1, p2.1)),
                1 => {
                    eval_ok(&mut vm, &format!("(define y1 {})", p1.1))?;
                    audited_gc(&mut vm)?;
                    eval_ok(&mut vm, &format!("(define y2 {})", p2.1))?;
                    // and the other inverse law on a symbol from this route
                    match eval_bool(&mut vm, "(eq? (string->symbol (symbol->string y1)) y1)") {
                        Ok(true) => {}
                        Ok(false) => return Err("INVERSE".into()),
                        Err(e) => return Err(e),
                    }
                    eval_bool(&mut vm, "(eq? y1 y2)")
                }
                2 => {
                    // the first production is dropped and collected before the second one (intern table edited)
                    eval_ok(&mut vm, &format!("(define y0 {})", p1.1))?;
                    eval_ok(&mut vm, "(set! y0 #f)")?;
                    audited_gc(&mut vm)?;
                    audited_gc(&mut vm)?;
                    eval_ok(&mut vm, &format!("(define y1 {})", p1.1))?;
                    eval_ok(&mut vm, &format!("(define y2 {})", p2.1))?;
                    eval_bool(&mut vm, "(eq? y1 y2)")
                }
                _ => {
                    eval_ok(&mut vm, &format!("(define ys (list {} {}))", p1.1, p2.1))?;
                    audited_gc(&mut vm)?;
                    eval_bool(&mut vm, "(eq? (car ys) (car (cdr ys)))")
                }
            }
        })();
        vm.vm.verif_set_gc_schedule(None);
        vm.vm.verif_set_gc_observer(None);
        let l = std::mem::take(&mut *log.borrow_mut());
        rep.count("collections_observed", l.collections);
        rep.see("modes", ["same-evaluation", "two-evaluations-collection-between", "first-dropped-and-collected", "held-in-a-list-across-collection"][mode]);
        if let Some(f) = l.findings.first() {
            rep.violation(&format!("auditor:{}", f.kind), format!("{} while interning {:?}/{:?}: {}", f.kind, s1, s2, f.detail), wit.clone(), id);
            vm = MwVm::new();
            since_fresh = 0;
            continue;
        }
        let sched_name = sched.as_ref().map(|s| if matches!(s, Schedule::EveryK(1)) { "every-instruction" } else { "sparse" }).unwrap_or("none");
        match result {
            Ok(got) => {
                rep.count("identity_checks", 1);
                if got != expected {
                    let bad = if expected { "same-name-not-eq" } else { "different-names-eq" };
                    rep.violation(
                        &format!("{}:{}|{}:{}", bad, ROUTES[r1], ROUTES[r2], if sched.is_some() || mode > 0 { "with-collections" } else { "no-collections" }),
                        format!("names {:?} and {:?} via {} / {} (mode {}, schedule {}): eq? -> {} but expected {}", s1, s2, ROUTES[r1], ROUTES[r2], mode, sched_name, got, expected),
                        wit.clone(),
                        id,
                    );
                    continue;
                }
                rep.nontrivial(hash_str(&format!("{}|{}|{}|{}", s1, s2, r1, r2)));
                if index % 997 == 5 {
                    rep.sample(Json::obj().set("name1", s1.as_str()).set("name2", s2.as_str()).set("route1", ROUTES[r1]).set("route2", ROUTES[r2]).set("expr1", p1.1.as_str()).set("expr2", p2.1.as_str()).set("eq", got));
                }
            }
            Err(e) if e == "INVERSE" => {
                rep.violation(&format!("string->symbol-of-symbol->string-differs:{}:{}", ROUTES[r1], cls), format!("(eq? (string->symbol (symbol->string y)) y) is #f for y = {} (name {:?})", p1.1, s1), wit.clone(), id);
            }
            Err(e) => {
                rep.violation(&format!("route-fails:{}|{}:{}", ROUTES[r1], ROUTES[r2], cls), format!("producing {:?} via {} or {:?} via {} failed: {}", s1, p1.1, s2, p2.1, e), wit.clone(), id);
                vm = MwVm::new();
                since_fresh = 0;
            }
        }
        if verbose {
            println!("{:?} {:?} routes {} {} mode {} -> ok", s1, s2, ROUTES[r1], ROUTES[r2], mode);
        }
    }
    if verbose {
        for v in &rep.violations {
            println!("VIOLATION {} :: {}", v.sig, v.detail);
        }
    }
}
