//! C15 — string and character procedures index by character over all of Unicode.
//!
//! History + executable model: a pool of strings bound to globals, mirrored as `Vec<char>` with
//! identity; operation sequences with indices from -1..len+1 and characters of every UTF-8
//! width. After every operation the result and the contents of every pool string are compared.
use crate::diff::{run_form, show_outcome, MwOutcome, MwVm};
use crate::engines::c05::parse_forms;
use crate::json::Json;
use crate::refscheme::D;
use crate::report::Report;
use crate::rng::{hash_str, Rng};
use crate::Ctx;
use marwood::cell::Cell;

const POOL: usize = 5;
const CHARS: [char; 33] = ['k', 'K', '\u{212a}', '\u{23a}', '\u{2c65}', '\u{e5}', '\u{212b}', 'a', 'b', 'Z', 'z', '0', ' ', 'é', 'ß', 'Ä', 'ä', 'λ', 'Σ', 'σ', 'ς', 'ǅ', '日', '本', '€', '\u{2003}', '𝄞', '😀', '\u{10ffff}', '\n', '"', '\\', 'İ'];

#[derive(Clone, Debug, PartialEq)]
enum MV {
    Str(Vec<char>),
    Char(char),
    Int(i64),
    Bool(bool),
    List(Vec<MV>),
    Vector(Vec<MV>),
    Unspec,
}

fn d_of(m: &MV) -> D {
    match m {
        MV::Str(s) => D::Str(s.iter().collect()),
        MV::Char(c) => D::Char(*c),
        MV::Int(i) => D::Int(i.to_string()),
        MV::Bool(b) => D::Bool(*b),
        MV::List(l) => {
            let mut t = D::Nil;
            for x in l.iter().rev() {
                t = D::Pair(Box::new(d_of(x)), Box::new(t));
            }
            t
        }
        MV::Vector(v) => D::Vector(v.iter().map(d_of).collect()),
        MV::Unspec => D::Unspec,
    }
}

fn chr(c: char) -> String {
    format!("{:#}", Cell::Char(c))
}
fn strlit(s: &[char]) -> String {
    format!("{:#}", Cell::String(s.iter().collect()))
}

fn range(len: usize, start: Option<i64>, end: Option<i64>) -> Result<(usize, usize), ()> {
    let s = start.unwrap_or(0);
    let e = end.unwrap_or(len as i64);
    if s < 0 || e < 0 || s > e || e as usize > len {
        return Err(());
    }
    Ok((s as usize, e as usize))
}

fn simple_lower(c: char) -> char {
    let mut it = c.to_lowercase();
    match (it.next(), it.next()) {
        (Some(x), None) => x,
        _ => c,
    }
}
fn simple_upper(c: char) -> char {
    let mut it = c.to_uppercase();
    match (it.next(), it.next()) {
        (Some(x), None) => x,
        _ => c,
    }
}

struct Op {
    expr: String,
    name: &'static str,
    /// model outcome: Ok(value) or Err(()) for "an error must be reported"
    expect: Result<MV, ()>,
    arg_class: String,
}

fn pick_idx(rng: &mut Rng, len: usize) -> i64 {
    match rng.usize(10) {
        0 => -1,
        1 => len as i64,
        2 => len as i64 + 1,
        3 => 1_000_000,
        _ => {
            if len == 0 {
                0
            } else {
                rng.usize(len) as i64
            }
        }
    }
}

fn idx_class(i: i64, len: usize) -> &'static str {
    if i < 0 {
        "negative"
    } else if (i as usize) < len {
        "in-range"
    } else if i as usize == len {
        "=len"
    } else {
        ">len"
    }
}

fn width(c: char) -> usize {
    c.len_utf8()
}

fn gen_op(rng: &mut Rng, pool: &mut Vec<Vec<char>>) -> Op {
    let si = rng.usize(POOL);
    let s = pool[si].clone();
    let len = s.len();
    let c = *rng.pick(&CHARS);
    let k = rng.usize(32);
    match k {
        30 | 31 => {
            // a pool variable is rebound to a string that must be newly allocated: later mutations of either
            // string must not show in the other (checked by the pool snapshots after every operation)
            let a = rng.usize(POOL);
            let which = rng.usize(6);
            let (e, name): (String, &'static str) = match which {
                0 => (format!("(string-append s{})", si), "string-append"),
                1 => (format!("(string-copy s{})", si), "string-copy"),
                2 => (format!("(substring s{} 0 {})", si, len), "substring"),
                3 => (format!("(string-append s{} (make-string 0 #\\a))", si), "string-append"),
                4 => (format!("(list->string (string->list s{}))", si), "list->string"),
                _ => (format!("(string-append (make-string 0 #\\a) s{})", si), "string-append"),
            };
            pool[a] = s.clone();
            Op { expr: format!("(set! s{} {})", a, e), name, expect: Ok(MV::Unspec), arg_class: format!("rebind:{}", if which == 0 { "one-argument" } else { "fresh-copy" }) }
        }
        0 => Op { expr: format!("(string-length s{})", si), name: "string-length", expect: Ok(MV::Int(len as i64)), arg_class: String::new() },
        1 | 2 => {
            let i = pick_idx(rng, len);
            let e = if i >= 0 && (i as usize) < len { Ok(MV::Char(s[i as usize])) } else { Err(()) };
            Op { expr: format!("(string-ref s{} {})", si, i), name: "string-ref", expect: e, arg_class: format!("index:{}", idx_class(i, len)) }
        }
        3 | 4 | 5 => {
            let i = pick_idx(rng, len);
            let ok = i >= 0 && (i as usize) < len;
            let cls = format!("index:{},new-width:{},old-width:{}", idx_class(i, len), width(c), if ok { width(s[i as usize]) } else { 0 });
            if ok {
                pool[si][i as usize] = c;
            }
            Op { expr: format!("(string-set! s{} {} {})", si, i, chr(c)), name: "string-set!", expect: if ok { Ok(MV::Unspec) } else { Err(()) }, arg_class: cls }
        }
        6 | 7 | 8 => {
            let (a, b) = (pick_idx(rng, len), pick_idx(rng, len));
            let which = rng.usize(4);
            let (expr, r) = match which {
                0 => (format!("(substring s{} {} {})", si, a, b), range(len, Some(a), Some(b))),
                1 => (format!("(string-copy s{} {} {})", si, a, b), range(len, Some(a), Some(b))),
                2 => (format!("(string-copy s{} {})", si, a), range(len, Some(a), None)),
                _ => (format!("(string-copy s{})", si), range(len, None, None)),
            };
            let cls = match which {
                3 => "no-range".to_string(),
                2 => format!("start:{}", idx_class(a, len)),
                _ => format!("start:{},end:{},{}", idx_class(a, len), idx_class(b, len), if a > b { "start>end" } else if a == b { "start=end" } else { "start<end" }),
            };
            Op { expr, name: if which == 0 { "substring" } else { "string-copy" }, expect: r.map(|(x, y)| MV::Str(s[x..y].to_vec())), arg_class: cls }
        }
        9 | 10 | 11 => {
            let (a, b) = (pick_idx(rng, len), pick_idx(rng, len));
            let which = rng.usize(3);
            let (expr, r) = match which {
                0 => (format!("(string-fill! s{} {})", si, chr(c)), range(len, None, None)),
                1 => (format!("(string-fill! s{} {} {})", si, chr(c), a), range(len, Some(a), None)),
                _ => (format!("(string-fill! s{} {} {} {})", si, chr(c), a, b), range(len, Some(a), Some(b))),
            };
            let cls = match which {
                0 => format!("whole,width:{}", width(c)),
                1 => format!("start:{},width:{}", idx_class(a, len), width(c)),
                _ => format!("start:{},end:{},{},width:{}", idx_class(a, len), idx_class(b, len), if a > b { "start>end" } else if a == b { "start=end" } else { "start<end" }, width(c)),
            };
            if let Ok((x, y)) = r {
                for j in x..y {
                    pool[si][j] = c;
                }
            }
            Op { expr, name: "string-fill!", expect: r.map(|_| MV::Unspec), arg_class: cls }
        }
        12 | 13 => {
            let (a, b) = (pick_idx(rng, len), pick_idx(rng, len));
            let which = rng.usize(3);
            let (expr, r) = match which {
                0 => (format!("(string->list s{})", si), range(len, None, None)),
                1 => (format!("(string->list s{} {})", si, a), range(len, Some(a), None)),
                _ => (format!("(string->list s{} {} {})", si, a, b), range(len, Some(a), Some(b))),
            };
            let cls = match which {
                0 => "whole".to_string(),
                1 => format!("start:{}", idx_class(a, len)),
                _ => format!("start:{},end:{},{}", idx_class(a, len), idx_class(b, len), if a > b { "start>end" } else if a == b { "start=end" } else { "start<end" }),
            };
            Op { expr, name: "string->list", expect: r.map(|(x, y)| MV::List(s[x..y].iter().map(|c| MV::Char(*c)).collect())), arg_class: cls }
        }
        14 => Op { expr: format!("(string->vector s{})", si), name: "string->vector", expect: Ok(MV::Vector(s.iter().map(|c| MV::Char(*c)).collect())), arg_class: String::new() },
        15 => {
            let n = rng.usize(4);
            let cs: Vec<char> = (0..n).map(|_| *rng.pick(&CHARS)).collect();
            let which = rng.usize(3);
            let args: Vec<String> = cs.iter().map(|c| chr(*c)).collect();
            let expr = match which {
                0 => format!("(vector->string (vector {}))", args.join(" ")),
                1 => format!("(list->string (list {}))", args.join(" ")),
                _ => format!("(string {})", args.join(" ")),
            };
            Op { expr, name: ["vector->string", "list->string", "string"][which], expect: Ok(MV::Str(cs)), arg_class: format!("count:{}", n.min(1)) }
        }
        16 => {
            let n = *rng.pick(&[0i64, 1, 3, -1]);
            let with = rng.bool();
            let expr = if with { format!("(make-string {} {})", n, chr(c)) } else { format!("(string-length (make-string {}))", n) };
            let e = if n < 0 {
                Err(())
            } else if with {
                Ok(MV::Str(vec![c; n as usize]))
            } else {
                Ok(MV::Int(n))
            };
            Op { expr, name: "make-string", expect: e, arg_class: format!("size:{}", if n < 0 { "negative" } else { "ok" }) }
        }
        17 | 18 => {
            let n = rng.usize(4);
            let picks: Vec<usize> = (0..n).map(|_| rng.usize(POOL)).collect();
            let mut out = vec![];
            for p in &picks {
                out.extend(pool[*p].iter().cloned());
            }
            let args: Vec<String> = picks.iter().map(|p| format!("s{}", p)).collect();
            Op { expr: format!("(string-append {})", args.join(" ")).replace(" )", ")"), name: "string-append", expect: Ok(MV::Str(out)), arg_class: format!("count:{}", n.min(1)) }
        }
        19 | 20 => {
            // variadic: true iff every adjacent pair is in the relation (R7RS 6.7)
            let op = *rng.pick(&["string=?", "string<?", "string>?", "string<=?", "string>=?"]);
            let extra = if rng.usize(3) == 0 { 1 + rng.usize(3) } else { 1 };
            let mut idx = vec![si];
            for _ in 0..extra {
                idx.push(rng.usize(POOL));
            }
            let rel = |a: &Vec<char>, b: &Vec<char>| match op {
                "string=?" => a == b,
                "string<?" => a < b,
                "string>?" => a > b,
                "string<=?" => a <= b,
                _ => a >= b,
            };
            let r = idx.windows(2).all(|w| rel(&pool[w[0]], &pool[w[1]]));
            let first_pair = rel(&pool[idx[0]], &pool[idx[1]]);
            let args: Vec<String> = idx.iter().map(|i| format!("s{}", i)).collect();
            let cls = if idx.len() == 2 { op.to_string() } else { format!("{}:variadic:{}", op, if r { "chain-holds" } else if first_pair { "later-pair-breaks" } else { "first-pair-breaks" }) };
            Op { expr: format!("({} {})", op, args.join(" ")), name: "string-compare", expect: Ok(MV::Bool(r)), arg_class: cls }
        }
        21 if rng.chance(1, 2) => {
            // the second operand is a case variant of the first, written as a literal: every character is replaced by
            // another member of its fold class (which may have another UTF-8 width: KELVIN SIGN / k, U+023A / U+2C65)
            let op = *rng.pick(&["=", "<", ">", "<=", ">="]);
            let v: Vec<char> = s
                .iter()
                .map(|ch| {
                    let lower: Vec<char> = ch.to_lowercase().collect();
                    let mut alts: Vec<char> = vec![*ch];
                    if lower.len() == 1 {
                        alts.push(lower[0]);
                        for u in lower[0].to_uppercase() {
                            if u.to_lowercase().collect::<Vec<char>>() == lower {
                                alts.push(u);
                            }
                        }
                        for extra in ['\u{212a}', '\u{212b}', '\u{2126}', '\u{23a}', '\u{1e9e}'] {
                            if extra.to_lowercase().collect::<Vec<char>>() == lower {
                                alts.push(extra);
                            }
                        }
                    }
                    *rng.pick(&alts)
                })
                .collect();
            let fa: Vec<char> = s.iter().collect::<String>().to_lowercase().chars().collect();
            let fb: Vec<char> = v.iter().collect::<String>().to_lowercase().chars().collect();
            let r = match op {
                "=" => fa == fb,
                "<" => fa < fb,
                ">" => fa > fb,
                "<=" => fa <= fb,
                _ => fa >= fb,
            };
            let widths = s.iter().collect::<String>().len() != v.iter().collect::<String>().len();
            Op { expr: format!("(string-ci{}? s{} {})", op, si, strlit(&v)), name: "string-ci-compare-case-variant", expect: Ok(MV::Bool(r)), arg_class: format!("string-ci{}?:variant:{}", op, if widths { "other-utf8-length" } else { "same-utf8-length" }) }
        }
        21 => {
            // case-insensitive predicates are specified the R7RS way: through foldcase (evaluated by marwood)
            let op = *rng.pick(&["=", "<", ">", "<=", ">="]);
            let b = rng.usize(POOL);
            Op { expr: format!("(eq? (string-ci{op}? s{a} s{b}) (string{op}? (string-foldcase s{a}) (string-foldcase s{b})))", op = op, a = si, b = b), name: "string-ci-compare", expect: Ok(MV::Bool(true)), arg_class: format!("string-ci{}?", op) }
        }
        22 => {
            let op = *rng.pick(&["=", "<", ">", "<=", ">="]);
            let d = *rng.pick(&CHARS);
            Op { expr: format!("(eq? (char-ci{op}? {a} {b}) (char{op}? (char-foldcase {a}) (char-foldcase {b})))", op = op, a = chr(c), b = chr(d)), name: "char-ci-compare", expect: Ok(MV::Bool(true)), arg_class: format!("char-ci{}?", op) }
        }
        23 => {
            let which = rng.usize(3);
            let (name, out): (&'static str, String) = match which {
                0 => ("string-upcase", s.iter().collect::<String>().to_uppercase()),
                1 => ("string-downcase", s.iter().collect::<String>().to_lowercase()),
                _ => ("string-foldcase", s.iter().collect::<String>().to_lowercase()),
            };
            Op { expr: format!("({} s{})", name, si), name, expect: Ok(MV::Str(out.chars().collect())), arg_class: String::new() }
        }
        24 => {
            let which = rng.usize(3);
            let (name, out) = match which {
                0 => ("char-upcase", simple_upper(c)),
                1 => ("char-downcase", simple_lower(c)),
                _ => ("char-foldcase", simple_lower(c)),
            };
            Op { expr: format!("({} {})", name, chr(c)), name, expect: Ok(MV::Char(out)), arg_class: String::new() }
        }
        25 => Op { expr: format!("(char->integer {})", chr(c)), name: "char->integer", expect: Ok(MV::Int(c as i64)), arg_class: String::new() },
        26 | 27 => {
            let n: i64 = match rng.usize(12) {
                // beyond 32 bits: the low 32 bits alone would be a valid scalar value
                8 => (1i64 << 32) + *rng.pick(&[0i64, 0x41, 0x3bb, 0x10FFFF]),
                9 => (1i64 << 40) + 0x61,
                10 => i64::MAX,
                11 => (*rng.pick(&[3i64, 17, 255]) << 32) + rng.range(0x20, 0x7e),
                0 => 0xD7FF,
                1 => 0xD800,
                2 => 0xDFFF,
                3 => 0xE000,
                4 => 0x10FFFF,
                5 => 0x110000,
                6 => -1,
                _ => rng.range(0, 0x11000),
            };
            let e = if n < 0 || n > 0x10FFFF { Err(()) } else { char::from_u32(n as u32).map(MV::Char).ok_or(()) };
            let cls = if n < 0 { "negative" } else if (0xD800..=0xDFFF).contains(&n) { "surrogate" } else if n > 0xFFFF_FFFF { "above-32-bits" } else if n > 0x10FFFF { "above-0x10ffff" } else { "scalar" };
            Op { expr: format!("(integer->char {})", n), name: "integer->char", expect: e, arg_class: cls.into() }
        }
        28 => {
            let op = *rng.pick(&["char=?", "char<?", "char>?", "char<=?", "char>=?"]);
            let extra = if rng.usize(3) == 0 { 1 + rng.usize(3) } else { 1 };
            let mut cs = vec![c];
            for _ in 0..extra {
                cs.push(*rng.pick(&CHARS));
            }
            let rel = |a: char, b: char| match op {
                "char=?" => a == b,
                "char<?" => a < b,
                "char>?" => a > b,
                "char<=?" => a <= b,
                _ => a >= b,
            };
            let r = cs.windows(2).all(|w| rel(w[0], w[1]));
            let args: Vec<String> = cs.iter().map(|x| chr(*x)).collect();
            let cls = if cs.len() == 2 { op.to_string() } else { format!("{}:variadic", op) };
            Op { expr: format!("({} {})", op, args.join(" ")), name: "char-compare", expect: Ok(MV::Bool(r)), arg_class: cls }
        }
        _ => {
            let which = rng.usize(5);
            let (name, r) = match which {
                0 => ("char-alphabetic?", c.is_alphabetic()),
                1 => ("char-numeric?", c.is_numeric()),
                2 => ("char-whitespace?", c.is_whitespace()),
                3 => ("char-upper-case?", c.is_uppercase()),
                _ => ("char-lower-case?", c.is_lowercase()),
            };
            Op { expr: format!("({} {})", name, chr(c)), name, expect: Ok(MV::Bool(r)), arg_class: String::new() }
        }
    }
}

fn gen_string(rng: &mut Rng) -> Vec<char> {
    let n = match rng.usize(6) {
        0 => 0,
        1 => 1,
        _ => 2 + rng.usize(6),
    };
    (0..n).map(|_| *rng.pick(&CHARS)).collect()
}

fn eval1(vm: &mut MwVm, src: &str) -> MwOutcome {
    let forms = parse_forms(src);
    match forms.first() {
        Some(f) => run_form(vm, f).outcome,
        None => MwOutcome::Failure(crate::refscheme::FailClass::Other, vec![], format!("harness: could not parse {}", src)),
    }
}

pub fn run(ctx: &Ctx, rep: &mut Report) {
    let verbose = ctx.is_replay();
    let n = ctx.cases(40_000, 800_000);
    let mut vm = MwVm::new();
    for index in ctx.indices(n) {
        let mut rng = ctx.rng("c15", index);
        rep.evaluations += 1;
        if index % 500 == 0 {
            vm = MwVm::new();
        }
        let mut pool: Vec<Vec<char>> = (0..POOL).map(|_| gen_string(&mut rng)).collect();
        let mut history: Vec<String> = vec![];
        let mut ok_session = true;
        for (i, s) in pool.iter().enumerate() {
            // string-copy of a literal so that every pool string is a fresh mutable object
            let def = format!("(define s{} (string-append {}))", i, strlit(s));
            history.push(def.clone());
            if !matches!(eval1(&mut vm, &def), MwOutcome::Value(_)) {
                ok_session = false;
            }
        }
        if !ok_session {
            rep.violation("setup:define-string-fails", format!("could not define the pool: {}", history.join(" ")), Json::obj().set("history", history.join("\n")), (ctx.shard, index));
            vm = MwVm::new();
            continue;
        }
        let nops = 1 + rng.usize(10);
        for _ in 0..nops {
            let op = gen_op(&mut rng, &mut pool);
            history.push(op.expr.clone());
            let got = eval1(&mut vm, &op.expr);
            rep.count("operations", 1);
            rep.see("procedures", op.name);
            if verbose {
                println!("{} -> {}   (model {:?})", op.expr, show_outcome(&got), op.expect.as_ref().map(d_of));
            }
            let wit = || Json::obj().set("history", history.join("\n")).set("operation", op.expr.as_str());
            let mut bad: Option<(String, String)> = None;
            match (&op.expect, &got) {
                (_, MwOutcome::Panic(p)) => bad = Some((format!("panic:{}", p.file()), format!("panicked: {} at {}", p.message, p.location))),
                (_, MwOutcome::Budget) => bad = Some(("watchdog".into(), "instruction budget".into())),
                (Ok(m), MwOutcome::Value(d)) => {
                    if !d_of(m).matches(d) {
                        bad = Some(("wrong-result".into(), format!("model {} vs marwood {}", d_of(m).show(), d.show())));
                    }
                }
                (Ok(m), MwOutcome::Failure(_, _, note)) => bad = Some(("error-instead-of-value".into(), format!("model {} vs marwood error ({})", d_of(m).show(), note))),
                (Err(()), MwOutcome::Value(d)) => bad = Some(("no-error".into(), format!("an error must be reported but marwood returned {}", d.show()))),
                (Err(()), MwOutcome::Failure(..)) => {
                    rep.count("errors_reported_as_required", 1);
                }
            }
            if bad.is_none() {
                // contents of every pool string afterwards
                let probe = eval1(&mut vm, "(list s0 s1 s2 s3 s4)");
                let want = D::Pair(Box::new(D::Nil), Box::new(D::Nil));
                let _ = want;
                let model = d_of(&MV::List(pool.iter().map(|s| MV::Str(s.clone())).collect()));
                match probe {
                    MwOutcome::Value(d) => {
                        if !model.matches(&d) {
                            bad = Some(("wrong-contents-afterwards".into(), format!("pool is {} but the model says {}", d.show(), model.show())));
                        }
                    }
                    other => bad = Some(("pool-unreadable-afterwards".into(), show_outcome(&other))),
                }
                rep.count("pool_snapshots_compared", 1);
            }
            if let Some((kind, detail)) = bad {
                rep.violation(&format!("{}:{}:{}", op.name, op.arg_class, kind), format!("{} :: {}", op.expr, detail), wit(), (ctx.shard, index));
                ok_session = false;
                vm = MwVm::new();
                break;
            }
        }
        if ok_session {
            rep.nontrivial(hash_str(&history.join("|")));
            if index % 4999 == 7 {
                rep.sample(Json::obj().set("history", history.join("\n")));
            }
        }
    }
    if verbose {
        for v in &rep.violations {
            println!("VIOLATION {} :: {}", v.sig, v.detail);
        }
    }
}
