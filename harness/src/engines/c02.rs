//! C02 — lexical scoping: innermost binding wins, closures share mutable locations.
//!
//! Probe programs are generated from scope skeletons: up to four nested procedures over the
//! names a, b, c; at each level each name is a parameter, the rest parameter, an internal
//! definition, or free. A fixed probe body logs every read before and after the inner closure
//! is created, assigns names before/after, and the closures are invoked inside the creator, after
//! it returned, twice, or created in a loop and invoked out of order. Oracle: RefScheme.
use crate::engines::c01::{diff_session, print_session, Verdict};
use crate::gen::{call, int, list, quote, sym, text_of};
use crate::json::Json;
use crate::report::Report;
use crate::rng::{hash_str, Rng};
use crate::Ctx;
use marwood::cell::Cell;

#[derive(Clone, Copy, Debug, PartialEq)]
pub enum Kind {
    Param,
    Rest,
    IDef,
    Free,
}

const NAMES: [&str; 3] = ["a", "b", "c"];

#[derive(Clone, Debug)]
pub struct Skeleton {
    /// kinds[level][name]
    pub kinds: Vec<[Kind; 3]>,
    /// 0 inside creator, 1 after return, 2 twice, 3 created in a loop and invoked out of order
    pub invoke: usize,
    /// assignment menu 0..5
    pub sets: usize,
}

fn kinds_of(mut code: usize) -> Option<[Kind; 3]> {
    let mut k = [Kind::Free; 3];
    let mut rests = 0;
    for slot in k.iter_mut() {
        *slot = match code % 4 {
            0 => Kind::Param,
            1 => {
                rests += 1;
                Kind::Rest
            }
            2 => Kind::IDef,
            _ => Kind::Free,
        };
        code /= 4;
    }
    if rests > 1 {
        None
    } else {
        Some(k)
    }
}

fn formals(k: &[Kind; 3]) -> Cell {
    let mut tail = match (0..3).find(|&i| k[i] == Kind::Rest) {
        Some(i) => sym(NAMES[i]),
        None => Cell::Nil,
    };
    for i in (0..3).rev() {
        if k[i] == Kind::Param {
            tail = Cell::new_pair(sym(NAMES[i]), tail);
        }
    }
    tail
}

/// actual arguments for a call of a level with kinds k; `salt` makes activations distinguishable
fn actuals(k: &[Kind; 3], level: usize, salt: &Cell) -> Vec<Cell> {
    let mut v = vec![];
    for i in 0..3 {
        if k[i] == Kind::Param {
            v.push(call("+", vec![int((1000 * (level + 1) + 100 * i) as i64), salt.clone()]));
        }
    }
    if k.iter().any(|x| *x == Kind::Rest) {
        v.push(call("+", vec![int((1000 * (level + 1) + 7) as i64), salt.clone()]));
        v.push(int(8));
    }
    v
}

fn rd(level: usize, phase: usize, name: &str) -> Cell {
    call("rd", vec![quote(sym(&format!("L{}{}{}", level + 1, name, phase))), sym(name)])
}

fn setter(level: usize, phase: usize, name: &str) -> Cell {
    list(vec![sym("set!"), sym(name), call("cons", vec![quote(sym(&format!("s{}{}", level + 1, phase))), sym(name)])])
}

/// the assignment performed by a procedure that never reads the variable: ((lambda (v) (set! x v)) (cons 'tag x))
fn setter_via_writer(level: usize, phase: usize, name: &str) -> Cell {
    list(vec![
        list(vec![sym("lambda"), list(vec![sym("v")]), list(vec![sym("set!"), sym(name), sym("v")])]),
        call("cons", vec![quote(sym(&format!("w{}{}", level + 1, phase))), sym(name)]),
    ])
}

fn set_menu(menu: usize, phase: usize) -> Vec<usize> {
    // which names are assigned in this phase (0 = before closure creation, 1 = after)
    match (menu, phase) {
        (0, _) => vec![],
        (1, 0) => vec![0, 1, 2],
        (1, 1) => vec![],
        (2, 0) => vec![],
        (2, 1) => vec![0, 1, 2],
        (3, 0) => vec![0, 2],
        (3, 1) => vec![1, 2],
        // menu 4: like 2, but every assignment is made by a closure that only writes the variable
        (4, 1) => vec![0, 1, 2],
        _ => vec![],
    }
}

/// lambda expression for `level` (0-based) of the skeleton
fn level_lambda(sk: &Skeleton, level: usize) -> Cell {
    let k = &sk.kinds[level];
    let mut body: Vec<Cell> = vec![];
    for i in 0..3 {
        if k[i] == Kind::IDef {
            body.push(call("define", vec![sym(NAMES[i]), int((10 * (level + 1) + i) as i64)]));
        }
    }
    // an internal procedure whose formals carry the three names: they are bound inside it only, the
    // rest of this body must keep seeing the bindings described by the skeleton
    let helper = format!("h{}", level + 1);
    body.push(list(vec![sym("define"), list(vec![sym(&helper), sym("a"), sym("b"), sym("c")]), call("list", vec![sym("a"), sym("b"), sym("c")])]));
    for n in NAMES {
        body.push(rd(level, 0, n));
    }
    body.push(call("rd", vec![quote(sym(&format!("H{}", level + 1))), call(&helper, vec![int(1), int(2), int(3)])]));
    for i in set_menu(sk.sets, 0) {
        body.push(setter(level, 0, NAMES[i]));
    }
    let last = level + 1 == sk.kinds.len();
    if last {
        for i in set_menu(sk.sets, 1) {
            body.push(if sk.sets == 4 { setter_via_writer(level, 1, NAMES[i]) } else { setter(level, 1, NAMES[i]) });
        }
        for n in NAMES {
            body.push(rd(level, 1, n));
        }
        // a named let whose tag has the name of a variable that its init reads: the init is outside the
        // tag's scope and denotes the variable
        for n in NAMES {
            body.push(call("rd", vec![quote(sym(&format!("N{}{}", level + 1, n))), list(vec![sym("let"), sym(n), list(vec![list(vec![sym("i"), sym(n)])]), sym("i")])]));
        }
        body.push(call("list", NAMES.iter().map(|n| sym(n)).collect()));
    } else {
        let inner_name = format!("i{}", level + 2);
        let inner = level_lambda(sk, level + 1);
        let mut let_body: Vec<Cell> = vec![];
        for i in set_menu(sk.sets, 1) {
            let_body.push(if sk.sets == 4 { setter_via_writer(level, 1, NAMES[i]) } else { setter(level, 1, NAMES[i]) });
        }
        for n in NAMES {
            let_body.push(rd(level, 1, n));
        }
        let nk = &sk.kinds[level + 1];
        match sk.invoke {
            1 | 3 => {
                // hand the closure back to the caller
                let_body.push(sym(&inner_name));
            }
            2 => {
                let mut c1 = vec![sym(&inner_name)];
                c1.extend(actuals(nk, level + 1, &int(1)));
                let mut c2 = vec![sym(&inner_name)];
                c2.extend(actuals(nk, level + 1, &int(2)));
                let_body.push(list(c1));
                for n in NAMES {
                    let_body.push(rd(level, 2, n));
                }
                let_body.push(list(c2));
            }
            _ => {
                let mut c1 = vec![sym(&inner_name)];
                c1.extend(actuals(nk, level + 1, &int(0)));
                let_body.push(list(c1));
            }
        }
        let mut l = vec![sym("let"), list(vec![list(vec![sym(&inner_name), inner])])];
        l.extend(let_body);
        body.push(list(l));
    }
    let mut v = vec![sym("lambda"), formals(k)];
    v.extend(body);
    list(v)
}

pub fn program(sk: &Skeleton) -> Vec<Cell> {
    let mut forms = vec![
        call("define", vec![sym("log"), quote(Cell::Nil)]),
        list(vec![sym("define"), list(vec![sym("rd"), sym("tag"), sym("v")]), list(vec![sym("set!"), sym("log"), call("cons", vec![call("cons", vec![sym("tag"), sym("v")]), sym("log")])]), sym("v")]),
        call("define", vec![sym("a"), int(100)]),
        call("define", vec![sym("b"), int(200)]),
        call("define", vec![sym("c"), int(300)]),
        call("define", vec![sym("p1"), level_lambda(sk, 0)]),
    ];
    let depth = sk.kinds.len();
    let call_level = |level: usize, f: Cell, salt: i64| -> Cell {
        let mut v = vec![f];
        v.extend(actuals(&sk.kinds[level], level, &int(salt)));
        list(v)
    };
    match sk.invoke {
        1 => {
            // each level returns its inner closure; the top level drives the chain
            forms.push(call("define", vec![sym("k1"), call_level(0, sym("p1"), 0)]));
            for lv in 1..depth {
                let prev = format!("k{}", lv);
                if lv + 1 == depth {
                    forms.push(call_level(lv, sym(&prev), 0));
                    // and once more: a second activation of the innermost level
                    forms.push(call_level(lv, sym(&prev), 5));
                } else {
                    forms.push(call("define", vec![sym(&format!("k{}", lv + 1)), call_level(lv, sym(&prev), 0)]));
                }
            }
            if depth == 1 {
                forms.push(sym("k1"));
            }
        }
        3 => {
            // three activations of level 1 created in a loop, driven out of order
            forms.push(call(
                "define",
                vec![sym("ks"), call("map", vec![list(vec![sym("lambda"), list(vec![sym("salt")]), { let mut v = vec![sym("p1")]; v.extend(actuals(&sk.kinds[0], 0, &sym("salt"))); list(v) }]), quote(list(vec![int(1), int(2), int(3)]))])],
            ));
            if depth >= 2 {
                for (j, which) in ["caddr", "car", "cadr", "caddr"].iter().enumerate() {
                    let f = call(which, vec![sym("ks")]);
                    let r = call_level(1, f, j as i64);
                    if depth == 2 {
                        forms.push(r);
                    } else {
                        // deeper levels: keep driving the returned closure chain of this activation
                        let mut cur = r;
                        for lv in 2..depth {
                            cur = call_level(lv, cur, j as i64);
                        }
                        forms.push(cur);
                    }
                }
            } else {
                forms.push(sym("ks"));
            }
        }
        _ => {
            forms.push(call_level(0, sym("p1"), 0));
            forms.push(call_level(0, sym("p1"), 3));
        }
    }
    forms.push(list(vec![sym("list"), sym("a"), sym("b"), sym("c")]));
    forms.push(call("reverse", vec![sym("log")]));
    forms
}

fn caddr_defs() -> Vec<Cell> {
    vec![list(vec![sym("define"), list(vec![sym("caddr"), sym("x")]), call("car", vec![call("cdr", vec![call("cdr", vec![sym("x")])])])])]
}

fn describe(sk: &Skeleton) -> String {
    let lv: Vec<String> = sk
        .kinds
        .iter()
        .map(|k| {
            k.iter()
                .map(|x| match x {
                    Kind::Param => 'p',
                    Kind::Rest => 'r',
                    Kind::IDef => 'd',
                    Kind::Free => '-',
                })
                .collect::<String>()
        })
        .collect();
    format!("levels[{}] invoke={} sets={}", lv.join("/"), ["inside", "after-return", "twice", "loop-out-of-order"][sk.invoke], sk.sets)
}

fn check(sk: &Skeleton, rep: &mut Report, case: (u64, u64), verbose: bool) -> bool {
    rep.evaluations += 1;
    let mut forms = caddr_defs();
    forms.extend(program(sk));
    if verbose {
        println!("{}\n{}", describe(sk), text_of(&forms));
        print_session(&forms);
    }
    match diff_session(&forms) {
        Verdict::Agree { forms_compared, .. } => {
            rep.count("forms_compared", forms_compared as u64);
            true
        }
        Verdict::ModelUndecided { why, .. } => {
            rep.count("model_undecided", 1);
            rep.see("model_undecided_reasons", &format!("{:?}", why).chars().take(70).collect::<String>());
            false
        }
        Verdict::Watchdog { .. } => {
            rep.inconclusive(&format!("watchdog on {}", describe(sk)));
            false
        }
        Verdict::Mismatch { kind, detail, at } => {
            // signature: mismatch kind + the binding kinds of the innermost two levels + invocation pattern
            let d = describe(sk);
            let depth = sk.kinds.len();
            let tail: Vec<String> = sk.kinds[depth.saturating_sub(2)..].iter().map(|k| k.iter().map(|x| format!("{:?}", x).chars().next().unwrap()).collect::<String>()).collect();
            let sig = format!("{}:depth{}:{}:{}", kind, depth, tail.join("/"), ["inside", "after-return", "twice", "loop"][sk.invoke]);
            rep.violation(&sig, format!("{} :: form #{} :: {}", d, at, detail.chars().take(700).collect::<String>()), Json::obj().set("shrunk", text_of(&forms)).set("skeleton", d.as_str()), case);
            false
        }
    }
}

const VALID_CODES: usize = 64;

pub fn run(ctx: &Ctx, rep: &mut Report) {
    let verbose = ctx.is_replay() || ctx.witness.is_some();
    if let Some(w) = &ctx.witness {
        if ctx.replay.is_none() {
            let text = w.get("shrunk").and_then(|t| t.as_str()).unwrap_or("").to_string();
            let mut forms = vec![];
            let mut rest: &str = &text;
            while let Ok((c, r)) = marwood::parse::parse_text(rest) {
                forms.push(c);
                match r {
                    Some(r) => rest = r,
                    None => break,
                }
            }
            print_session(&forms);
            return;
        }
    }
    let valid: Vec<[Kind; 3]> = (0..VALID_CODES).filter_map(kinds_of).collect();
    let nv = valid.len() as u64; // 54
    // enumerated part
    let mut idx: u64 = 0;
    let mut run_one = |sk: Skeleton, rep: &mut Report, idx: &mut u64| {
        *idx += 1;
        if *idx % ctx.nshards != ctx.shard {
            return;
        }
        if check(&sk, rep, (ctx.shard, u64::MAX), false) {
            rep.nontrivial(hash_str(&describe(&sk)));
            if rep.want_sample() && *idx % 1013 == 5 {
                let mut forms = caddr_defs();
                forms.extend(program(&sk));
                rep.sample(Json::obj().set("skeleton", describe(&sk)).set("program", text_of(&forms)));
            }
        }
    };
    if ctx.replay.is_none() {
        // depth 1: everything
        for a in 0..nv {
            for inv in 0..4 {
                for sets in 0..5 {
                    run_one(Skeleton { kinds: vec![valid[a as usize]], invoke: inv, sets }, rep, &mut idx);
                }
            }
        }
        // depth 2: all kind pairs x all invocation patterns; assignment menu exhaustive in thorough, hashed in quick
        for a in 0..nv {
            for b in 0..nv {
                for inv in 0..4 {
                    if ctx.quick() {
                        let sets = ((a * 7 + b * 3 + inv as u64 + ctx.seed) % 5) as usize;
                        run_one(Skeleton { kinds: vec![valid[a as usize], valid[b as usize]], invoke: inv, sets }, rep, &mut idx);
                    } else {
                        for sets in 0..5 {
                            run_one(Skeleton { kinds: vec![valid[a as usize], valid[b as usize]], invoke: inv, sets }, rep, &mut idx);
                        }
                    }
                }
            }
        }
        rep.count("enumerated_depth_le_2", idx);
        rep.exhaustive = true;
        // depth 3: all kind triples, pattern and menu hashed (thorough only)
        if !ctx.quick() {
            for a in 0..nv {
                for b in 0..nv {
                    for c in 0..nv {
                        let h = a * 31 + b * 17 + c * 5 + ctx.seed;
                        run_one(Skeleton { kinds: vec![valid[a as usize], valid[b as usize], valid[c as usize]], invoke: (h % 4) as usize, sets: ((h / 4) % 5) as usize }, rep, &mut idx);
                    }
                }
            }
            rep.count("enumerated_depth_3_kind_triples", nv * nv * nv / ctx.nshards);
        }
    }
    // sampled: depth 3 (quick) and depth 4
    let n = ctx.cases(20_000, 400_000);
    for index in ctx.indices(n) {
        let mut rng: Rng = ctx.rng("c02", index);
        let depth = if ctx.quick() && index % 2 == 0 { 3 } else { 4 };
        let kinds: Vec<[Kind; 3]> = (0..depth).map(|_| valid[rng.usize(valid.len())]).collect();
        let sk = Skeleton { kinds, invoke: rng.usize(4), sets: rng.usize(5) };
        if check(&sk, rep, (ctx.shard, index), verbose) {
            rep.nontrivial(hash_str(&describe(&sk)));
            rep.count("sampled_deep_skeletons", 1);
        }
    }
    if verbose {
        for v in &rep.violations {
            println!("VIOLATION {} :: {}", v.sig, v.detail);
        }
    }
}
