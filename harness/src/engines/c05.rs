//! C05 — first-class continuations: escape, re-entry and cross-evaluation invocation.
//!
//! Sessions are composed from parametrised continuation idioms (templates with seeded
//! parameters, unique names per instance) and compared form by form with RefScheme, whose
//! continuations are immutable frame lists and therefore re-entrant by construction.
use crate::engines::c01::{check_session, print_session};
use crate::gen::{self, Session};
use crate::json::Json;
use crate::report::Report;
use crate::rng::{hash_str, Rng};
use crate::Ctx;
use marwood::cell::Cell;

pub fn parse_forms(text: &str) -> Vec<Cell> {
    let mut forms = vec![];
    let mut rest: &str = text;
    loop {
        match marwood::parse::parse_text(rest) {
            Ok((c, r)) => {
                forms.push(c);
                match r {
                    Some(r) => rest = r,
                    None => break,
                }
            }
            Err(_) => break,
        }
    }
    forms
}

struct Inst<'a> {
    rng: &'a mut Rng,
    id: usize,
    tags: Vec<String>,
    out: String,
    /// names of stored continuations of earlier instances that are safe to invoke (guarded)
    stored: Vec<(String, String)>,
}

impl<'a> Inst<'a> {
    fn v(&mut self) -> i64 {
        self.rng.range(-9, 30)
    }
    fn emit(&mut self, s: &str) {
        self.out.push_str(s);
        self.out.push('\n');
    }
    fn tag(&mut self, t: &str) {
        if !self.tags.iter().any(|x| x == t) {
            self.tags.push(t.to_string());
        }
    }

    /// operand that leaves a trace: bumps a counter and returns a value
    fn traced(&self, cnt: &str, val: i64) -> String {
        format!("(begin (set! {c} (+ {c} 1)) (+ {v} {c}))", c = cnt, v = val)
    }

    /// P1: call/cc at operand index i of an n-ary call, re-entered from later top-level forms
    fn operand_capture(&mut self) {
        let id = self.id;
        let n = 1 + self.rng.usize(4);
        let i = self.rng.usize(n);
        let head = *self.rng.pick(&["list", "+", "vector", "list"]);
        let times = self.rng.usize(4);
        let store = self.rng.usize(4);
        self.tag(&format!("operand-{}-of-{}", i, n));
        self.tag("re-entry-from-later-form");
        self.emit(&format!("(define cnt{id} 0) (define ree{id} 0) (define k{id} #f) (define box{id} (vector #f)) (define cell{id} (cons #f '()))", id = id));
        let mut ops = vec![];
        for j in 0..n {
            if j == i {
                let save = match store {
                    0 => format!("(set! k{id} k)", id = id),
                    1 => format!("(vector-set! box{id} 0 k)", id = id),
                    2 => format!("(set-car! cell{id} k)", id = id),
                    _ => format!("(set! k{id} (lambda (v) (k v)))", id = id),
                };
                let val = self.v();
                ops.push(format!("(call/cc (lambda (k) {} {}))", save, val));
            } else {
                let val = self.v();
                ops.push(self.traced(&format!("cnt{}", id), val));
            }
        }
        let kref = match store {
            1 => format!("(vector-ref box{} 0)", id),
            2 => format!("(car cell{})", id),
            _ => format!("k{}", id),
        };
        self.tag(["k-in-variable", "k-in-vector", "k-in-pair", "k-in-closure"][store]);
        self.emit(&format!("(define r{id} ({head} {ops}))", id = id, head = head, ops = ops.join(" ")));
        self.emit(&format!("(list r{id} cnt{id})", id = id));
        for t in 0..times {
            let val = self.v();
            self.emit(&format!("(if (< ree{id} {lim}) (begin (set! ree{id} (+ ree{id} 1)) ({kref} {val})) 'spent)", id = id, lim = t + 1, kref = kref, val = val));
            self.emit(&format!("(list r{id} cnt{id} ree{id})", id = id));
        }
        self.stored.push((kref, format!("ree{}", id)));
    }

    /// P2: escape from depth d of a non-tail recursion
    fn deep_escape(&mut self) {
        let id = self.id;
        let d = self.rng.range(0, 40);
        let v = self.v();
        self.tag("escape-from-depth");
        self.emit(&format!("(define (dive{id} n k) (if (= n 0) (k {v}) (+ 1 (dive{id} (- n 1) k))))", id = id, v = v));
        let wrap = self.rng.usize(3);
        match wrap {
            0 => self.emit(&format!("(+ 100 (call/cc (lambda (k) (dive{id} {d} k))))", id = id, d = d)),
            1 => self.emit(&format!("(list 'a (call/cc (lambda (k) (+ 1000 (dive{id} {d} k)))) 'b)", id = id, d = d)),
            _ => self.emit(&format!("(call/cc (lambda (k) (dive{id} {d} (lambda (x) (k (* 2 x))))))", id = id, d = d)),
        }
    }

    /// P13: a continuation captured under d pending frames of a non-tail recursion, stored, and
    /// re-entered from later top-level forms (its saved stack may be deeper than any later form's)
    fn deep_capture_reentry(&mut self) {
        let id = self.id;
        let d = *self.rng.pick(&[0i64, 2, 10, 30, 41, 42, 43, 44, 60, 100, 200]) + self.rng.range(0, 2);
        let times = 1 + self.rng.usize(2);
        self.tag("capture-under-pending-frames");
        self.tag("re-entry-from-later-form");
        self.tag(if d < 40 { "capture-depth<40" } else if d < 50 { "capture-depth-40-49" } else { "capture-depth>=50" });
        self.emit(&format!("(define kd{id} #f) (define reed{id} 0)", id = id));
        self.emit(&format!("(define (deep{id} n) (if (= n 0) (call/cc (lambda (k) (set! kd{id} k) 0)) (+ 1 (deep{id} (- n 1)))))", id = id));
        self.emit(&format!("(define rd{id} (deep{id} {d}))", id = id, d = d));
        self.emit(&format!("rd{}", id));
        for t in 0..times {
            let val = self.v();
            let call = format!("(if (< reed{id} {lim}) (begin (set! reed{id} (+ reed{id} 1)) (kd{id} {val})) 'spent)", id = id, lim = t + 1, val = val);
            if self.rng.bool() {
                self.emit(&call);
            } else {
                self.emit(&format!("(list 'in (+ 1 (car (list {}))))", call));
            }
            self.emit(&format!("(list rd{id} reed{id})", id = id));
        }
        self.stored.push((format!("kd{}", id), format!("reed{}", id)));
    }

    /// P14: call/cc as an operand directly in the body of a named procedure, re-entered by that same
    /// activation (which is still running) after other applications were evaluated
    fn same_activation_reentry(&mut self) {
        let id = self.id;
        let (a, b) = (self.v(), self.v());
        let times = 1 + self.rng.usize(3);
        self.tag("re-entry-by-the-capturing-activation");
        self.emit(&format!("(define ks{id} #f) (define cnt{id} 0) (define out{id} '())", id = id));
        match self.rng.usize(3) {
            0 => self.emit(&format!(
                "(define (fs{id}) (define x (+ {a} (call/cc (lambda (c) (set! ks{id} c) {b})))) (set! cnt{id} (+ cnt{id} 1)) (if (< cnt{id} {t}) (ks{id} (* cnt{id} 10)) x))",
                id = id, a = a, b = b, t = times + 1
            )),
            1 => self.emit(&format!(
                "(define (fs{id}) (set! out{id} (cons (* 2 (+ {a} (call/cc (lambda (c) (set! ks{id} c) {b})))) out{id})) (set! cnt{id} (+ cnt{id} 1)) (if (< cnt{id} {t}) (ks{id} cnt{id})) out{id})",
                id = id, a = a, b = b, t = times + 1
            )),
            _ => self.emit(&format!(
                "(define (fs{id} p q) (let ((x (list p (call/cc (lambda (c) (set! ks{id} c) {b})) q))) (set! cnt{id} (+ cnt{id} 1)) (set! out{id} (cons x out{id})) (if (< cnt{id} {t}) (ks{id} (vector cnt{id})) (reverse out{id}))))",
                id = id, b = b, t = times + 1
            )),
        }
        if self.rng.bool() {
            self.emit(&format!("(fs{id}{args})", id = id, args = if self.out.contains(&format!("(define (fs{} p q)", id)) { format!(" {} {}", a, b) } else { String::new() }));
        } else {
            self.emit(&format!("(list 'wrapped (fs{id}{args}) cnt{id})", id = id, args = if self.out.contains(&format!("(define (fs{} p q)", id)) { format!(" {} {}", a, b) } else { String::new() }));
        }
        self.emit(&format!("(list cnt{id} out{id})", id = id));
    }

    /// P15: the value handed to a continuation is a mutable object that the program also holds elsewhere:
    /// what call/cc returns must be that very object
    fn object_through_continuation(&mut self) {
        let id = self.id;
        self.tag("mutable-object-passed-to-continuation");
        let obj = *self.rng.pick(&["(list 1 2 3)", "(vector 1 2 3)", "(cons 1 2)", "(list (list 1) 2)"]);
        let is_vec = obj.starts_with("(vector");
        self.emit(&format!("(define po{id} {obj})", id = id, obj = obj));
        match self.rng.usize(3) {
            0 => self.emit(&format!("(define ro{id} (call/cc (lambda (k) (k po{id}))))", id = id)),
            1 => self.emit(&format!("(define ro{id} (car (list (call/cc (lambda (k) (+ 1 (k po{id})))))))", id = id)),
            _ => {
                self.emit(&format!("(define ko{id} #f) (define ro{id} (call/cc (lambda (k) (set! ko{id} k) 0)))", id = id));
                self.emit(&format!("(if (number? ro{id}) (ko{id} po{id}) 'again)", id = id));
            }
        }
        if is_vec {
            self.emit(&format!("(vector-set! po{id} 0 'changed) (list (vector-ref ro{id} 0) (eq? ro{id} po{id}))", id = id));
            self.emit(&format!("(vector-set! ro{id} 1 'back) po{id}", id = id));
        } else {
            self.emit(&format!("(set-car! po{id} 'changed) (list (car ro{id}) (eq? ro{id} po{id}))", id = id));
            self.emit(&format!("(set-cdr! ro{id} 'back) po{id}", id = id));
        }
    }

    /// P3: generator built from two continuations
    fn generator(&mut self) {
        let id = self.id;
        let n = 1 + self.rng.usize(4);
        let items: Vec<String> = (0..n).map(|_| self.v().to_string()).collect();
        self.tag("generator");
        self.emit(&format!(
            "(define (make-gen{id} lst)
               (define return #f)
               (define resume #f)
               (define (start) (for-each (lambda (x) (call/cc (lambda (next) (set! resume next) (return x)))) lst) (return 'eof))
               (lambda () (call/cc (lambda (r) (set! return r) (if resume (resume #f) (start))))))",
            id = id
        ));
        self.emit(&format!("(define g{id} (make-gen{id} '({items})))", id = id, items = items.join(" ")));
        let pulls = 1 + self.rng.usize(n);
        if self.rng.bool() {
            for _ in 0..pulls {
                self.emit(&format!("(g{})", id));
            }
        } else {
            self.tag("generator-in-one-form");
            let calls: Vec<String> = (0..pulls).map(|_| format!("(g{})", id)).collect();
            self.emit(&format!("(list {})", calls.join(" ")));
        }
        if pulls == n && self.rng.bool() {
            self.emit(&format!("(g{})", id));
        }
    }

    /// P5: escape out of map / for-each callbacks
    fn escape_from_callback(&mut self) {
        let id = self.id;
        let n = 2 + self.rng.usize(4);
        let items: Vec<i64> = (0..n).map(|j| j as i64 + 1).collect();
        let hit = 1 + self.rng.usize(n) as i64;
        let l: Vec<String> = items.iter().map(|x| x.to_string()).collect();
        if self.rng.bool() {
            self.tag("escape-from-map");
            self.emit(&format!("(call/cc (lambda (k) (map (lambda (x) (if (= x {hit}) (k (list 'found x)) (* x x))) '({l}))))", hit = hit, l = l.join(" ")));
        } else {
            self.tag("escape-from-for-each");
            self.emit(&format!("(define seen{id} '())", id = id));
            self.emit(&format!("(call/cc (lambda (k) (for-each (lambda (x) (set! seen{id} (cons x seen{id})) (if (= x {hit}) (k 'stop))) '({l})) 'finished))", id = id, hit = hit, l = l.join(" ")));
            self.emit(&format!("seen{}", id));
        }
    }

    /// P6: re-entry into a map callback must not disturb earlier results
    fn map_reentry(&mut self) {
        let id = self.id;
        let n = 2 + self.rng.usize(3);
        let hit = 1 + self.rng.usize(n);
        let l: Vec<String> = (1..=n).map(|x| x.to_string()).collect();
        let times = 1 + self.rng.usize(3);
        self.tag("re-entry-into-map-callback");
        self.emit(&format!(
            "(let ((kk #f) (count 0) (results '()))
               (let ((r (map (lambda (x) (call/cc (lambda (k) (if (= x {hit}) (set! kk k)) x))) '({l}))))
                 (set! results (cons r results))
                 (if (< count {times}) (begin (set! count (+ count 1)) (kk (* 10 count))) (reverse results))))",
            hit = hit,
            l = l.join(" "),
            times = times
        ));
        let _ = id;
    }

    /// P7: invoke a continuation stored by an earlier instance from inside another call/cc extent
    fn cross_invoke(&mut self) {
        let id = self.id;
        if self.stored.is_empty() {
            return self.deep_escape();
        }
        let (kref, guard) = self.rng.pick(&self.stored).clone();
        let lim = 5 + self.rng.usize(2);
        let v = self.v();
        self.tag("invoke-inside-other-extent");
        self.emit(&format!(
            "(list 'outer{id} (call/cc (lambda (k2) (if (and {kref} (< {guard} {lim})) (begin (set! {guard} (+ {guard} 10)) ({kref} {v})) (k2 'skipped)))))",
            id = id,
            kref = kref,
            guard = guard,
            lim = lim,
            v = v
        ));
    }

    /// P8: receivers that return normally, variadic receivers, call/cc through apply
    fn ordinary_call(&mut self) {
        let v = self.v();
        self.tag("receiver-returns-normally");
        match self.rng.usize(5) {
            0 => self.emit(&format!("(+ 1 (call/cc (lambda (k) {})))", v)),
            1 => {
                self.tag("variadic-receiver");
                self.emit("(call/cc (lambda args (length args)))")
            }
            2 => {
                self.tag("apply-call/cc");
                self.emit(&format!("(apply call/cc (list (lambda (k) (k {}))))", v))
            }
            3 => self.emit(&format!("(call-with-current-continuation (lambda (k) (if (k {}) 1 2)))", v)),
            _ => self.emit(&format!("((call/cc (lambda (k) (lambda (x) (+ x {})))) 5)", v)),
        }
    }

    /// P9: mutations made between capture and re-entry stay visible
    fn mutation_visibility(&mut self) {
        let id = self.id;
        self.tag("mutation-between-capture-and-re-entry");
        self.emit(&format!("(define x{id} 0) (define p{id} (list 1 2)) (define kk{id} #f)", id = id));
        let inner = self.rng.bool();
        if inner {
            self.emit(&format!("(define (f{id}) (let ((loc 0)) (let ((r (call/cc (lambda (k) (set! kk{id} k) 0)))) (set! loc (+ loc 1)) (list r loc x{id} (car p{id})))))", id = id));
            self.emit(&format!("(define r{id} (f{id}))", id = id));
        } else {
            self.emit(&format!("(define r{id} (call/cc (lambda (k) (set! kk{id} k) 0)))", id = id));
        }
        self.emit(&format!("(set! x{id} (+ x{id} 1))", id = id));
        self.emit(&format!("(set-car! p{id} (+ (car p{id}) 1))", id = id));
        self.emit(&format!("(list r{id} x{id} (car p{id}))", id = id));
        let times = 1 + self.rng.usize(2);
        for t in 0..times {
            self.emit(&format!("(if (< x{id} {lim}) (begin (set! x{id} (+ x{id} 1)) (kk{id} (+ 100 x{id}))) 'no)", id = id, lim = t + 2));
            self.emit(&format!("(list r{id} x{id} (car p{id}))", id = id));
        }
    }

    /// P10: loop exit through a continuation; many captures in a loop
    fn loop_break(&mut self) {
        let id = self.id;
        let n = self.rng.range(0, 300);
        let stop = self.rng.range(0, 300);
        self.tag("loop-break");
        match self.rng.usize(3) {
            0 => self.emit(&format!("(call/cc (lambda (break) (let loop ((i 0)) (if (= i {stop}) (break (list 'at i))) (if (< i {n}) (loop (+ i 1)) 'end))))", stop = stop, n = n)),
            1 => {
                self.tag("capture-per-iteration");
                self.emit(&format!("(define last{id} #f)", id = id));
                self.emit(&format!("(let loop ((i 0) (acc 0)) (if (< i {n}) (loop (+ i 1) (+ acc (call/cc (lambda (k) (set! last{id} k) i)))) acc))", id = id, n = n));
            }
            _ => {
                let t = self.rng.range(0, 11);
                self.emit(&format!(
                    "(let ((found (call/cc (lambda (return) (for-each (lambda (row) (for-each (lambda (x) (if (= x {t}) (return (list 'hit x)))) row)) '((1 2 3) (4 5 6) (7 8 9))) 'none)))) found)",
                    t = t
                ))
            }
        }
    }

    /// P11: re-entry 0-3 times from inside a loop of the same form
    fn reentry_in_loop(&mut self) {
        let id = self.id;
        let times = self.rng.usize(4);
        let v = self.v();
        self.tag("re-entry-inside-one-form");
        self.emit(&format!(
            "(let ((k #f) (n 0) (trace '()))
               (let ((x (+ {v} (call/cc (lambda (c) (set! k c) 1)))))
                 (set! trace (cons x trace))
                 (set! n (+ n 1))
                 (if (<= n {times}) (k (* n 10)) (reverse trace))))",
            v = v,
            times = times
        ));
        let _ = id;
    }

    /// P12: k passed to and invoked by a procedure defined earlier; tail and nested positions
    fn positions(&mut self) {
        let id = self.id;
        let v = self.v();
        self.tag("tail-and-nested-positions");
        self.emit(&format!("(define (call-it{id} k x) (k x))", id = id));
        match self.rng.usize(4) {
            0 => self.emit(&format!("(define (t{id} x) (call/cc (lambda (k) (call-it{id} k (+ x 1))))) (t{id} {v})", id = id, v = v)),
            1 => self.emit(&format!("(if (call/cc (lambda (k) (call-it{id} k #f))) 'yes 'no)", id = id)),
            2 => self.emit(&format!("(cond ((call/cc (lambda (k) (k {v}))) => (lambda (t) (* t 2))) (else 'none))", v = v)),
            _ => self.emit(&format!("(let* ((a (call/cc (lambda (k) (k {v})))) (b (call/cc (lambda (k) (+ a (k 1)))))) (list a b))", v = v)),
        }
    }
}

pub fn session(rng: &mut Rng) -> Session {
    let mut inst = Inst { rng, id: 0, tags: vec![], out: String::new(), stored: vec![] };
    let n = 1 + inst.rng.usize(4);
    for j in 0..n {
        inst.id = j + 1;
        match inst.rng.usize(19) {
            18 => inst.object_through_continuation(),
            16 | 17 => inst.same_activation_reentry(),
            14 | 15 => inst.deep_capture_reentry(),
            0 | 1 | 2 => inst.operand_capture(),
            3 => inst.deep_escape(),
            4 => inst.generator(),
            5 => inst.escape_from_callback(),
            6 => inst.map_reentry(),
            7 => inst.cross_invoke(),
            8 => inst.ordinary_call(),
            9 => inst.mutation_visibility(),
            10 => inst.loop_break(),
            11 => inst.reentry_in_loop(),
            12 => inst.positions(),
            _ => {
                // an ordinary generated expression with simple escapes mixed in
                let mut g = gen::Gen::new(inst.rng, gen::Opts { callcc: true, ..gen::Opts::default() });
                g.prefix = format!("m{}", j);
                let f1 = g.define_proc(None);
                let f2 = g.expr_form();
                inst.out.push_str(&format!("{:#}\n{:#}\n", f1, f2));
                inst.tags.push("generated-expression-with-escapes".into());
            }
        }
    }
    let forms = parse_forms(&inst.out);
    Session { forms, tags: inst.tags }
}

pub fn run(ctx: &Ctx, rep: &mut Report) {
    let verbose = ctx.is_replay() || ctx.witness.is_some();
    if let Some(w) = &ctx.witness {
        if ctx.replay.is_none() {
            let text = w.get("shrunk").and_then(|t| t.as_str()).unwrap_or("").to_string();
            print_session(&parse_forms(&text));
            return;
        }
    }
    // half of the sessions: the second fresh-VM run collects every 1..23 instructions
    crate::engines::c01::SECOND_RUN_COLLECTS_EVERY.store(23, std::sync::atomic::Ordering::Relaxed);
    let n = ctx.cases(10_000, 300_000);
    for index in ctx.indices(n) {
        let mut rng = ctx.rng("c05", index);
        let sess = session(&mut rng);
        if verbose {
            println!("--- session {} tags {:?}\n{}", index, sess.tags, gen::text_of(&sess.forms));
            print_session(&sess.forms);
        }
        let ok = check_session(&sess, rep, (ctx.shard, index), verbose, None);
        if ok {
            rep.nontrivial(hash_str(&gen::text_of(&sess.forms)));
            for t in &sess.tags {
                rep.see("continuation_idioms", t);
            }
            if index % 499 == 2 {
                rep.sample(Json::obj().set("tags", Json::Arr(sess.tags.iter().map(|t| Json::Str(t.clone())).collect())).set("session", gen::text_of(&sess.forms)));
            }
        }
    }
    if verbose {
        for v in &rep.violations {
            println!("VIOLATION {} :: {}", v.sig, v.detail);
        }
    }
}
