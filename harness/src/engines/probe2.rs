//! probe2 — evaluate forms in both the model and marwood and print both outcomes (debugging aid).
use crate::diff::{compare, run_form, show_model, show_outcome, MwVm};
use crate::refscheme::Machine;
use crate::report::Report;
use crate::Ctx;

pub fn run(ctx: &Ctx, _rep: &mut Report) {
    let src = ctx.arg.clone().unwrap_or_default();
    let src = if let Some(p) = src.strip_prefix('@') { std::fs::read_to_string(p).unwrap() } else { src };
    let mut m = Machine::new();
    let mut vm = MwVm::new();
    let mut rest: &str = &src;
    loop {
        let (form, r) = match marwood::parse::parse_text(rest) {
            Ok(x) => x,
            Err(e) => {
                println!("parse error {:?}", e);
                break;
            }
        };
        let mo = m.eval_form(&form);
        let mw = run_form(&mut vm, &form);
        match &mo {
            Ok(fr) => {
                println!("{:#}\n   model  : {}   [{} steps] out={:?}\n   marwood: {}  out={:?}", form, show_model(&fr.outcome), fr.steps, fr.output.iter().map(|x| x.1.show()).collect::<Vec<_>>(), show_outcome(&mw.outcome), mw.output.iter().map(|x| x.1.show()).collect::<Vec<_>>());
                if let Some((k, d)) = compare(fr, &mw) {
                    println!("   MISMATCH {} :: {}", k, d);
                }
            }
            Err(u) => println!("{:#}\n   model  : undecided {:?}\n   marwood: {}", form, u, show_outcome(&mw.outcome)),
        }
        match r {
            Some(r) => rest = r,
            None => break,
        }
    }
}
