//! C12 — memory is bounded by live data: garbage of every kind is reclaimed.
//!
//! "Stops growing" is decided as a bounded, *relative* statement: for a loop that creates n
//! short-lived objects of one kind while keeping a bounded live set, the heap capacity, stack
//! capacity and host bytes held after 10n iterations must not exceed those after n iterations
//! (plus one growth step of slack), for n >= 10^4. Exactness (allocated = reachable right after a
//! collection) is checked by the heap auditor on forced collections.
use crate::alloc;
use crate::diff::{run_form, show_outcome, MwOutcome, MwVm};
use crate::engines::c03::{run_scheduled, Schedule};
use crate::engines::c05::parse_forms;
use crate::heapaudit;
use crate::json::Json;
use crate::report::Report;
use crate::rng::hash_str;
use crate::Ctx;

/// (kind, loop body creating garbage of that kind; `i` is the loop counter)
pub const KINDS: [(&str, &str); 19] = [
    ("pairs", "(cons i (list i i))"),
    ("vectors", "(vector i (make-vector 6 i))"),
    ("strings", "(string-append \"ab\" (number->string i) (make-string 3 #\\z))"),
    ("closures-and-environments", "((lambda (x) (lambda () (+ x i))) i)"),
    ("closures-called", "(((lambda (x) (lambda (y) (+ x y))) i) 1)"),
    ("continuations", "(call/cc (lambda (k) k))"),
    ("continuations-escaped", "(+ 1 (call/cc (lambda (k) (k i))))"),
    ("code-compiled-by-eval", "(eval (list '+ i 1))"),
    ("lambdas-compiled-by-eval", "((eval (list 'lambda '(q) (list '+ 'q i))) 1)"),
    ("interned-symbols", "(string->symbol (string-append \"fresh-\" (number->string i)))"),
    ("quoted-fresh-symbols", "(eval (list 'quote (string->symbol (string-append \"qf-\" (number->string i)))))"),
    ("lambdas-with-fresh-parameter-names-compiled-by-eval", "((eval (list 'lambda (list (string->symbol (string-append \"v\" (number->string i)))) (string->symbol (string-append \"v\" (number->string i))))) i)"),
    ("bignums", "(* 123456789012345678901234567890 (+ i 1))"),
    ("promises", "(force (delay (list i)))"),
    // one instruction allocating many cells: more than one cell per executed instruction
    ("bulk:vector->list", "(vector->list (make-vector 64 i))"),
    ("bulk:string->list", "(string->list (make-string 64 #\\a))"),
    ("bulk:list->vector-of-vector->list", "(list->vector (vector->list (make-vector 48 i)))"),
    ("bulk:append-and-list-copy", "(append (vector->list (make-vector 40 i)) (list-copy (vector->list (make-vector 24 i))))"),
    ("mixed", "(list (vector i) (lambda () i) (number->string i) (call/cc (lambda (k) k)) (string->symbol (string-append \"m\" (number->string (remainder i 50)))))"),
];

#[derive(Debug, Clone)]
pub struct Usage {
    pub heap_capacity: usize,
    pub heap_used_after_gc: usize,
    pub stack_capacity: usize,
    pub host_bytes: usize,
    pub host_after_drop: isize,
    pub symbols: usize,
}

fn setup(live: usize) -> String {
    format!("(define keep (let loop ((i 0) (acc '())) (if (< i {}) (loop (+ i 1) (cons (vector i (list i)) acc)) acc)))", live)
}

/// Loops whose only live datum is the object made by the previous iteration (passed on as a loop
/// argument): the live set is one object whatever n is.
const ROLLING: [(&str, &str); 5] = [
    ("rolling:pair", "(cons i i)"),
    ("rolling:vector", "(vector i i)"),
    ("rolling:closure-over-loop-variable", "(lambda () i)"),
    ("rolling:closure-over-fresh-binding", "((lambda (x) (lambda () x)) i)"),
    ("rolling:continuation", "(call/cc (lambda (k) k))"),
];

/// The same garbage loops, but the evaluation is driven in slices (prepare_eval + run_count(b)), the
/// way marwood-wasm drives it: memory must be bounded for every budget.
/// Computations whose length grows with N but whose live set does not: (name, program with {N}, N small).
const CHAINS: [(&str, &str, u64); 3] = [
    ("chain:delay-force", "(define (lc n) (delay-force (if (= n 0) (delay 0) (lc (- n 1))))) (force (lc {N}))", 2000),
    ("chain:stream-walk", "(define (ints n) (cons n (delay (ints (+ n 1))))) (define (walk s k) (if (= k 0) (car s) (walk (force (cdr s)) (- k 1)))) (walk (ints 0) {N})", 2000),
    ("chain:mutual-tail-calls-with-allocation", "(define (ping n acc) (if (= n 0) (length acc) (pong (- n 1) (list n)))) (define (pong n acc) (ping n (cons n '()))) (ping {N} '())", 5000),
];

const SLICED: [(&str, &str, usize); 4] = [
    ("sliced-1000:pairs", "(cons i (list i i))", 1000),
    ("sliced-100:closures-and-environments", "((lambda (x) (lambda () (+ x i))) i)", 100),
    ("sliced-8191:vectors", "(vector i (make-vector 6 i))", 8191),
    ("sliced-7:strings", "(string-append \"ab\" (number->string i) (make-string 3 #\\z))", 7),
];

pub fn measure_loop(body: &str, live: usize, n: u64) -> Result<Usage, String> {
    measure_loop_shape(body, live, n, false)
}

pub fn measure_loop_shape(body: &str, live: usize, n: u64, rolling: bool) -> Result<Usage, String> {
    measure_loop_full(body, live, n, rolling, None)
}

pub fn measure_loop_full(body: &str, live: usize, n: u64, rolling: bool, slice: Option<usize>) -> Result<Usage, String> {
    let base = alloc::live_bytes() as isize;
    let mut m = MwVm::new();
    for f in parse_forms(&setup(live)) {
        let r = run_form(&mut m, &f);
        if !matches!(r.outcome, MwOutcome::Value(_)) {
            return Err(show_outcome(&r.outcome));
        }
    }
    let prog = if rolling {
        // the object made by the last iteration is kept; everything made before it is garbage
        format!("(define last-one (let loop ((i 0) (prev #f)) (if (< i {}) (loop (+ i 1) {}) prev)))", n, body)
    } else {
        format!("(let loop ((i 0)) (if (< i {}) (begin {} (loop (+ i 1))) 'done))", n, body)
    };
    for f in parse_forms(&prog) {
        // no instruction watchdog here: long loops are the point
        let r = match slice {
            None => crate::mw::catch(|| m.vm.eval(&f).map(|_| ())),
            Some(b) => crate::mw::catch(|| {
                m.vm.prepare_eval(&f)?;
                loop {
                    if m.vm.run_count(b)?.is_some() {
                        return Ok(());
                    }
                }
            }),
        };
        match r {
            Ok(Ok(_)) => {}
            Ok(Err(e)) => return Err(format!("error {}", e)),
            Err(p) => return Err(format!("panic {}", p.message)),
        }
    }
    let s0 = m.vm.verif_stats();
    m.vm.verif_force_gc();
    let s1 = m.vm.verif_stats();
    let host = alloc::live_bytes();
    let symbols = m.vm.verif_heap().verif_symbol_table().len();
    drop(m);
    let after = alloc::live_bytes() as isize - base;
    Ok(Usage { heap_capacity: s0.heap_capacity, heap_used_after_gc: s1.heap_used, stack_capacity: s0.stack_capacity, host_bytes: host, host_after_drop: after, symbols })
}

/// a whole program (several forms) in a fresh VM
pub fn measure_program(prog: &str, live: usize) -> Result<Usage, String> {
    let base = alloc::live_bytes() as isize;
    let mut m = MwVm::new();
    for f in parse_forms(&setup(live)) {
        run_form(&mut m, &f);
    }
    for f in parse_forms(prog) {
        match crate::mw::catch(|| m.vm.eval(&f).map(|_| ())) {
            Ok(Ok(())) => {}
            Ok(Err(e)) => return Err(format!("error {}", e)),
            Err(p) => return Err(format!("panic {}", p.message)),
        }
    }
    let s0 = m.vm.verif_stats();
    m.vm.verif_force_gc();
    let s1 = m.vm.verif_stats();
    let host = alloc::live_bytes();
    let symbols = m.vm.verif_heap().verif_symbol_table().len();
    drop(m);
    let after = alloc::live_bytes() as isize - base;
    Ok(Usage { heap_capacity: s0.heap_capacity, heap_used_after_gc: s1.heap_used, stack_capacity: s0.stack_capacity, host_bytes: host, host_after_drop: after, symbols })
}

/// successive top-level evaluations (each compiles a fresh entry procedure)
pub fn measure_toplevel(live: usize, n: u64) -> Result<Usage, String> {
    let base = alloc::live_bytes() as isize;
    let mut m = MwVm::new();
    for f in parse_forms(&setup(live)) {
        run_form(&mut m, &f);
    }
    for i in 0..n {
        let t = format!("(car (list (+ {} 1) \"s\" (lambda () {})))", i, i);
        match crate::mw::catch(|| m.vm.eval_text(&t).map(|_| ())) {
            Ok(Ok(())) => {}
            Ok(Err(e)) => return Err(format!("error {}", e)),
            Err(p) => return Err(format!("panic {}", p.message)),
        }
    }
    let s0 = m.vm.verif_stats();
    m.vm.verif_force_gc();
    let s1 = m.vm.verif_stats();
    let host = alloc::live_bytes();
    let symbols = m.vm.verif_heap().verif_symbol_table().len();
    drop(m);
    let after = alloc::live_bytes() as isize - base;
    Ok(Usage { heap_capacity: s0.heap_capacity, heap_used_after_gc: s1.heap_used, stack_capacity: s0.stack_capacity, host_bytes: host, host_after_drop: after, symbols })
}

fn compare(kind: &str, live: usize, n: u64, small: &Usage, large: &Usage, rep: &mut Report, id: (u64, u64)) -> bool {
    let wit = Json::obj().set("kind", kind).set("live_set", live).set("n", n).set("after_n", format!("{:?}", small)).set("after_10n", format!("{:?}", large));
    rep.max("max_heap_capacity_cells", large.heap_capacity as u64);
    if kind.starts_with("rolling:") && large.heap_used_after_gc > small.heap_used_after_gc + 256 {
        rep.violation(&format!("cells-kept-allocated-by-the-one-survivor-grow-with-work:{}", kind), format!("{}: the loop keeps only the object made by its last iteration, yet {} cells are in use after a collection when it ran {} iterations and {} when it ran {}", kind, small.heap_used_after_gc, n, large.heap_used_after_gc, n * 10), wit, id);
        return false;
    }
    // one growth step (x1.5) of slack on capacities: the phase of the last collection differs
    if large.heap_capacity as f64 > small.heap_capacity as f64 * 1.5 + 1.0 {
        rep.violation(&format!("heap-grows-with-work:{}", kind), format!("{} garbage, live set {}: heap capacity {} cells after n={} but {} after 10n", kind, live, small.heap_capacity, n, large.heap_capacity), wit, id);
        return false;
    }
    if large.heap_used_after_gc > small.heap_used_after_gc + 256 {
        rep.violation(&format!("live-cells-after-collection-grow-with-work:{}", kind), format!("{} garbage, live set {}: {} cells in use after a collection at n={} but {} at 10n", kind, live, small.heap_used_after_gc, n, large.heap_used_after_gc), wit, id);
        return false;
    }
    if large.stack_capacity > small.stack_capacity {
        rep.violation(&format!("stack-capacity-grows-with-work:{}", kind), format!("stack capacity {} after n={} but {} after 10n", small.stack_capacity, n, large.stack_capacity), wit, id);
        return false;
    }
    if large.host_bytes as f64 > small.host_bytes as f64 * 1.6 + 65536.0 {
        rep.violation(&format!("host-memory-grows-with-work:{}", kind), format!("{} garbage, live set {}: {} host bytes held after n={} but {} after 10n", kind, live, small.host_bytes, n, large.host_bytes), wit, id);
        return false;
    }
    if large.symbols > small.symbols + 64 {
        rep.violation(&format!("intern-table-grows-with-work:{}", kind), format!("{} entries in the symbol table after n={} but {} after 10n", small.symbols, n, large.symbols), wit, id);
        return false;
    }
    for (u, which) in [(small, "n"), (large, "10n")] {
        if u.host_after_drop > 4096 {
            rep.violation(&format!("host-memory-not-released-on-drop:{}", kind), format!("{} host bytes still allocated after dropping the VM ({} run, {} garbage)", u.host_after_drop, which, kind), wit.clone(), id);
            return false;
        }
    }
    true
}

const EXACT_PROGRAMS: [&str; 6] = [
    "(define (build n) (if (= n 0) '() (cons (vector n) (build (- n 1))))) (define keep (build 50)) (let loop ((i 0)) (if (< i 300) (begin (list i (lambda () i) (number->string i)) (loop (+ i 1))))) (length keep)",
    "(define ks '()) (let loop ((i 0)) (if (< i 40) (begin (set! ks (cons (call/cc (lambda (k) k)) ks)) (loop (+ i 1))))) (set! ks '()) (+ 1 2)",
    "(define (mk n) (lambda () n)) (define cs (map mk '(1 2 3 4 5 6 7 8 9))) (set! cs (cdr cs)) (map (lambda (c) (c)) cs) (eval '(define ev (lambda (x) (list x x)))) (ev 1) (set! ev #f) 'done",
    "(define (sym i) (string->symbol (string-append \"e\" (number->string i)))) (define syms (map sym '(1 2 3 4 5 6 7 8 9 10))) (set! syms (cdr (cdr syms))) (length syms) (sym 1)",
    "(define v (make-vector 20 '())) (let loop ((i 0)) (if (< i 200) (begin (vector-set! v (remainder i 20) (list i (vector i))) (loop (+ i 1))))) (vector-ref v 3) (vector-fill! v 0) 'done",
    "(define p (delay (list 1 2 3))) (force p) (set! p #f) (define q `(a ,(list 1 2) #(b ,(vector 3)))) (set! q (car q)) q",
];

pub fn run(ctx: &Ctx, rep: &mut Report) {
    let verbose = ctx.is_replay();
    // ---- part 1: growth, one case per (kind, live set, n) ----
    let ns: Vec<u64> = if ctx.quick() { vec![10_000] } else { vec![10_000, 100_000] };
    let lives = [0usize, 10, 1000];
    let mut cases: Vec<(usize, usize, u64)> = vec![];
    for k in 0..=KINDS.len() + ROLLING.len() + SLICED.len() + CHAINS.len() {
        for l in lives {
            for n in &ns {
                cases.push((k, l, *n));
            }
        }
    }
    for (ci, (k, live, n)) in cases.iter().enumerate() {
        if ci as u64 % ctx.nshards != ctx.shard {
            continue;
        }
        if let Some(r) = ctx.replay {
            if r != ci as u64 {
                continue;
            }
        }
        rep.evaluations += 1;
        let (kind, small, large) = if *k > KINDS.len() + ROLLING.len() + SLICED.len() {
            let (name, prog, n0) = CHAINS[*k - KINDS.len() - ROLLING.len() - SLICED.len() - 1];
            (name, measure_program(&prog.replace("{N}", &n0.to_string()), *live), measure_program(&prog.replace("{N}", &(n0 * 10).to_string()), *live))
        } else if *k > KINDS.len() + ROLLING.len() {
            let (name, body, b) = SLICED[*k - KINDS.len() - ROLLING.len() - 1];
            (name, measure_loop_full(body, *live, *n / 2, false, Some(b)), measure_loop_full(body, *live, *n * 5, false, Some(b)))
        } else if *k > KINDS.len() {
            let (name, body) = ROLLING[*k - KINDS.len() - 1];
            // short loops: what is compared is the number of cells the one survivor keeps allocated, and a
            // retained chain of 10^4 objects would already exhaust the native stack in the marker (C19)
            (name, measure_loop_shape(body, *live, 200, true), measure_loop_shape(body, *live, 2000, true))
        } else if *k == KINDS.len() {
            // eval-based loops and top-level evaluations are slower: scale n down by 10 for them
            ("code-compiled-by-successive-top-level-evaluations", measure_toplevel(*live, *n / 10), measure_toplevel(*live, *n))
        } else {
            let (name, body) = KINDS[*k];
            let slow = name.contains("eval") || name.contains("quoted-fresh") || name == "mixed";
            let nn = if slow { *n / 10 } else { *n };
            (name, measure_loop(body, *live, nn), measure_loop(body, *live, nn * 10))
        };
        match (small, large) {
            (Ok(s), Ok(l)) => {
                if verbose {
                    println!("{} live={} n={}: {:?} -> {:?}", kind, live, n, s, l);
                }
                rep.count("growth_comparisons", 1);
                rep.see("allocation_kinds", kind);
                if compare(kind, *live, if kind.starts_with("rolling:") { 200 } else { *n }, &s, &l, rep, (ctx.shard, ci as u64)) {
                    rep.nontrivial(hash_str(&format!("{}|{}|{}", kind, live, n)));
                    if ci % 7 == 1 {
                        rep.sample(Json::obj().set("kind", kind).set("live_set", *live).set("n", *n).set("heap_capacity_n", s.heap_capacity).set("heap_capacity_10n", l.heap_capacity).set("host_bytes_n", s.host_bytes).set("host_bytes_10n", l.host_bytes));
                    }
                }
            }
            (a, b) => rep.inconclusive(&format!("{} live={} n={} did not run: {:?} {:?}", kind, live, n, a.err(), b.err())),
        }
    }
    // ---- part 2: exactness right after a collection ----
    for (pi, p) in EXACT_PROGRAMS.iter().enumerate() {
        if pi as u64 % ctx.nshards != ctx.shard % (EXACT_PROGRAMS.len() as u64).max(1) && ctx.nshards > 1 && (pi as u64) != ctx.shard % EXACT_PROGRAMS.len() as u64 {
            continue;
        }
        let forms = parse_forms(p);
        for s in [Schedule::EveryK(1), Schedule::EveryK(7), Schedule::Random { seed: ctx.seed + pi as u64, one_in: 5 }] {
            rep.evaluations += 1;
            let (_r, log) = run_scheduled(&forms, &s, 4000, true);
            rep.count("collections_checked_for_exactness", log.collections.min(1));
            rep.count("collections_observed", log.collections);
            if let Some((idx, kind)) = log.exactness.first() {
                rep.violation(
                    &format!("unreachable-{}-survives-collection", kind),
                    format!("immediately after a collection {} unreachable cell(s) are still allocated, first ${:x} of kind {} (schedule {}, program {})", log.exactness.len(), idx, kind, s.name(), pi),
                    Json::obj().set("shrunk", *p).set("schedule", s.name()),
                    (ctx.shard, 10_000 + pi as u64),
                );
            } else {
                rep.nontrivial(hash_str(&format!("exact|{}|{}", pi, s.name())));
            }
        }
    }
    // ---- part 4: dropping a VM releases everything, whatever cycles the program built ----
    const CYCLES: [(&str, &str); 6] = [
        ("self-containing-vector-via-vector-set!", "(define v (vector 1 2)) (vector-set! v 0 v) (vector-length v)"),
        ("self-containing-vector-via-vector-fill!", "(define v (vector 1 2)) (vector-fill! v v) (vector-length v)"),
        ("circular-list", "(define l (list 1 2 3)) (set-cdr! (cdr (cdr l)) l) (car l)"),
        ("closure-referring-to-itself", "(define (f) f) (define g (let ((h #f)) (set! h (lambda () h)) h)) (procedure? (g))"),
        ("continuation-stored-in-its-own-frame", "(define k #f) (define r (call/cc (lambda (c) (set! k c) 1))) (if (< r 3) (k (+ r 1))) r"),
        ("vector-of-vectors-filled", "(define a (make-vector 50 0)) (define b (make-vector 50 a)) (vector-fill! a b) (vector-length a)"),
    ];
    for (ci, (name, prog)) in CYCLES.iter().enumerate() {
        if ci as u64 % ctx.nshards != ctx.shard % ctx.nshards.min(CYCLES.len() as u64) {
            continue;
        }
        rep.evaluations += 1;
        let base = alloc::live_bytes() as isize;
        {
            let mut m = MwVm::new();
            for _ in 0..50 {
                for f in parse_forms(prog) {
                    run_form(&mut m, &f);
                }
            }
            drop(m);
        }
        let after = alloc::live_bytes() as isize - base;
        rep.count("drop_scenarios", 1);
        rep.see("drop_scenarios", name);
        if after > 4096 {
            rep.violation(&format!("host-memory-not-released-on-drop:{}", name), format!("{} bytes still allocated after dropping a VM that ran 50 x {}", after, prog), Json::obj().set("shrunk", *prog), (ctx.shard, 30_000 + ci as u64));
        } else {
            rep.nontrivial(hash_str(name));
        }
    }
    // ---- part 3: between evaluations, after a forced collection, allocated = reachable ----
    if ctx.shard == 0 || ctx.nshards == 1 {
        let mut m = MwVm::new();
        for p in EXACT_PROGRAMS.iter() {
            for f in parse_forms(p) {
                run_form(&mut m, &f);
                m.vm.verif_force_gc();
                rep.evaluations += 1;
                let ex = heapaudit::exactness(&m.vm);
                rep.count("quiescent_exactness_checks", 1);
                if let Some((idx, kind)) = ex.first() {
                    rep.violation(&format!("unreachable-{}-survives-collection:between-evaluations", kind), format!("after {:#} and a collection, cell ${:x} ({}) is allocated but unreachable ({} such cells)", f, idx, kind, ex.len()), Json::obj().set("shrunk", *p), (0, 20_000));
                    break;
                }
            }
        }
    }
}
