//! probe3 — evaluate a sequence of texts (separated by lines "=====") in ONE VM, datum by datum,
//! under the instruction budget; report the first text that panics. Debugging aid for
//! history-dependent failures.
use crate::mw::catch;
use crate::report::Report;
use crate::Ctx;
use marwood::vm::Vm;

pub fn run(ctx: &Ctx, _rep: &mut Report) {
    let path = ctx.arg.clone().unwrap_or_default();
    let all = std::fs::read_to_string(path).unwrap();
    let mut vm = Vm::new();
    install_auditor(&mut vm);
    for (ti, text) in all.split("\n=====\n").enumerate() {
        let mut rest: &str = text;
        loop {
            let (cell, r) = match catch(|| marwood::parse::parse_text(rest)) {
                Ok(Ok(x)) => x,
                _ => break,
            };
            let res = catch(|| match vm.prepare_eval(&cell) {
                Ok(()) => vm.run_count(3_000_000).map(|o| o.is_some()),
                Err(e) => Err(e),
            });
            match res {
                Err(p) => {
                    println!("PANIC in text #{} at form {:#}: {} at {}", ti, cell, p.message, p.location);
                    std::process::exit(0);
                }
                Ok(Ok(false)) => {
                    vm = Vm::new();
                    install_auditor(&mut vm);
                    break;
                }
                _ => {}
            }
            match r {
                Some(r) => rest = r,
                None => break,
            }
        }
        // the canary of C06
        let canary = marwood::parse::parse_text("(+ 1 2)").unwrap().0;
        if let Err(p) = catch(|| vm.eval(&canary)) {
            println!("PANIC in canary after text #{}: {} at {}", ti, p.message, p.location);
            std::process::exit(0);
        }
    }
    println!("NO-PANIC");
    std::process::exit(0);
}

/// audit every collection (natural ones included) with the independent heap auditor
fn install_auditor(vm: &mut Vm) {
    use crate::heapaudit;
    use marwood::vm::verif::GcPhase;
    let pre: std::rc::Rc<std::cell::RefCell<Option<heapaudit::Snapshot>>> = std::rc::Rc::new(std::cell::RefCell::new(None));
    let observer = move |vm: &Vm, phase: GcPhase| match phase {
        GcPhase::Before => *pre.borrow_mut() = Some(heapaudit::snapshot(vm)),
        GcPhase::After => {
            let d = heapaudit::dangling_scan(vm);
            if !d.is_empty() {
                println!("DANGLING after a collection: {:?}", d);
                std::process::exit(0);
            }
            if let Some(p) = pre.borrow_mut().take() {
                let f = heapaudit::audit_after(vm, &p);
                if !f.is_empty() {
                    // debug dump: every allocated lambda with a reference to a free cell
                    use marwood::vm::vcell::VCell;
                    for (i, c) in p.cells.iter().enumerate() {
                        if let VCell::Lambda(l) = c {
                            if !p.allocated[i] {
                                continue;
                            }
                            let free = |v: &VCell| matches!(v, VCell::Ptr(t) if *t < p.allocated.len() && !p.allocated[*t]);
                            let bc: Vec<usize> = l.bc.iter().enumerate().filter(|(_, v)| free(v)).map(|(k, _)| k).collect();
                            let args: Vec<usize> = l.args.iter().enumerate().filter(|(_, v)| free(v)).map(|(k, _)| k).collect();
                            let env: Vec<usize> = l.envmap.get_map().iter().enumerate().filter(|(_, v)| free(&v.0)).map(|(k, _)| k).collect();
                            if !bc.is_empty() || !args.is_empty() || !env.is_empty() {
                                println!("lambda ${:x} {} reachable={} : free refs in bc {:?} args {:?} envmap {:?} ; bc = {:?}", i, l, p.reachable[i], bc, args, env, l.bc.iter().map(|v| v.to_string()).collect::<Vec<_>>());
                            }
                        }
                    }
                    let table = vm.verif_heap().verif_symbol_table();
                    for (name, idx) in table {
                        if *idx < p.allocated.len() && !p.allocated[*idx] {
                            println!("symbol table: {:?} -> free ${:x}", name, idx);
                        }
                    }
                    println!("AUDITOR after a natural collection (next opcode {} sp {}): {:?}", p.next_opcode, p.sp, f.iter().take(3).collect::<Vec<_>>());
                    std::process::exit(0);
                }
            }
        }
    };
    vm.verif_set_gc_observer(Some(Box::new(observer)));
}
