//! C01 — evaluation agrees with the language semantics for core and derived forms.
//!
//! Online differential monitor: every generated session is evaluated form by form by RefScheme and
//! by marwood (two fresh VMs, plus a third one in which unrelated definitions are interleaved).
use crate::diff::{compare, run_form, show_model, show_outcome, MwForm, MwOutcome, MwVm};
use crate::gen::{self, Opts, Session};
use crate::json::Json;
use crate::refscheme::{FormResult, Machine, Undecided};
use crate::report::Report;
use crate::rng::{hash_str, Rng};
use crate::Ctx;
use marwood::cell::Cell;
use std::collections::BTreeSet;

pub enum Verdict {
    Agree { forms_compared: usize, failures_seen: usize },
    /// model could not decide form `at`; forms before it agreed
    ModelUndecided { at: usize, why: Undecided },
    Watchdog { at: usize },
    Mismatch { at: usize, kind: String, detail: String },
}

/// Evaluate `forms` in the model and in a fresh marwood VM; first disagreement wins.
pub fn diff_session(forms: &[Cell]) -> Verdict {
    let mut model = Machine::new();
    let mut vm = MwVm::new();
    let mut failures = 0;
    for (i, f) in forms.iter().enumerate() {
        let mo = match model.eval_form(f) {
            Ok(r) => r,
            Err(u) => return Verdict::ModelUndecided { at: i, why: u },
        };
        let mw = run_form(&mut vm, f);
        if let MwOutcome::Budget = mw.outcome {
            return Verdict::Watchdog { at: i };
        }
        if let Some((kind, detail)) = compare(&mo, &mw) {
            return Verdict::Mismatch { at: i, kind, detail: format!("form #{} {:#}: {}", i, f, detail) };
        }
        if matches!(mo.outcome, crate::refscheme::Outcome::Failure(..)) {
            failures += 1;
        }
    }
    Verdict::Agree { forms_compared: forms.len(), failures_seen: failures }
}

pub fn run_marwood(forms: &[Cell]) -> Vec<MwForm> {
    let mut vm = MwVm::new();
    forms.iter().map(|f| run_form(&mut vm, f)).collect()
}

/// When non-zero, the second of the two fresh-VM runs of check_session forces a collection every
/// this-many instructions (set by the C05 engine): collections must not be observable either.
pub static SECOND_RUN_COLLECTS_EVERY: std::sync::atomic::AtomicU64 = std::sync::atomic::AtomicU64::new(0);

pub fn run_marwood_collecting(forms: &[Cell], every: u64) -> Vec<MwForm> {
    let mut vm = MwVm::new();
    let mut left: u64 = 200_000;
    vm.vm.verif_set_gc_schedule(Some(Box::new(move |_vm, instr| {
        if left > 0 && instr % every == 0 {
            left -= 1;
            true
        } else {
            false
        }
    })));
    forms.iter().map(|f| run_form(&mut vm, f)).collect()
}

/// The session runs in a fresh VM whose live data sits just under the collector's 75 % utilisation threshold (live
/// ballast; run_gc itself grows the heap when utilisation stays above 75 % after a sweep, so "just under" is the
/// highest stable level). A little garbage then tips the heap over the threshold, so the collections the production
/// code asks for (end of an evaluation, every 8192 instructions, any other call of run_gc) really mark and sweep.
/// Returns the results and the number of collections that ran during the session.
pub fn run_marwood_high_utilisation(forms: &[Cell]) -> (Vec<MwForm>, u64) {
    let mut vm = MwVm::new();
    let _ = vm.vm.eval_text("(define ballast-zz '())");
    for _ in 0..200 {
        vm.vm.verif_force_gc();
        let s = vm.vm.verif_stats();
        let target = s.heap_capacity * 745 / 1000;
        let gap = target.saturating_sub(s.heap_used);
        if gap <= s.heap_capacity / 400 {
            break;
        }
        let step = gap.min((s.heap_capacity / 100).max(8));
        let _ = vm.vm.eval_text(&format!("(set! ballast-zz (let loop ((i 0) (acc ballast-zz)) (if (< i {}) (loop (+ i 1) (cons i acc)) acc)))", step));
    }
    vm.vm.verif_reset_counters();
    let r: Vec<MwForm> = forms.iter().map(|f| run_form(&mut vm, f)).collect();
    let n = vm.vm.verif_stats().collections;
    (r, n)
}

fn same_mw(a: &MwForm, b: &MwForm) -> bool {
    let out_same = a.output.len() == b.output.len() && a.output.iter().zip(b.output.iter()).all(|(x, y)| x.0 == y.0 && x.1 == y.1);
    let o = match (&a.outcome, &b.outcome) {
        (MwOutcome::Value(x), MwOutcome::Value(y)) => x == y,
        (MwOutcome::Failure(c1, p1, _), MwOutcome::Failure(c2, p2, _)) => c1 == c2 && p1 == p2,
        (MwOutcome::Budget, MwOutcome::Budget) => true,
        (MwOutcome::Panic(_), MwOutcome::Panic(_)) => true,
        _ => false,
    };
    out_same && o
}

// ---------- generic shrinking of S-expression sessions ----------

fn count_nodes(c: &Cell) -> usize {
    match c {
        Cell::Pair(a, b) => 1 + count_nodes(a) + count_nodes_tail(b),
        _ => 1,
    }
}
fn count_nodes_tail(c: &Cell) -> usize {
    match c {
        Cell::Pair(a, b) => count_nodes(a) + count_nodes_tail(b),
        Cell::Nil => 0,
        _ => 1,
    }
}

/// pre-order numbering of list *elements*; returns the replaced tree
fn replace_node(c: &Cell, idx: &mut isize, with: &dyn Fn(&Cell) -> Option<Cell>) -> Cell {
    if *idx == 0 {
        *idx = -1;
        return with(c).unwrap_or_else(|| c.clone());
    }
    if *idx > 0 {
        *idx -= 1;
    }
    match c {
        Cell::Pair(_, _) => {
            let mut items = vec![];
            let mut cur = c;
            while let Cell::Pair(a, b) = cur {
                if *idx >= 0 {
                    items.push(replace_node(a, idx, with));
                } else {
                    items.push((**a).clone());
                }
                cur = b;
            }
            if cur.is_nil() {
                Cell::new_list(items)
            } else {
                Cell::new_improper_list(items, cur.clone())
            }
        }
        _ => c.clone(),
    }
}

fn heads(c: &Cell, out: &mut BTreeSet<String>) {
    const INTERESTING: [&str; 34] = [
        "lambda", "define", "set!", "if", "let", "let*", "letrec", "begin", "cond", "case", "and", "or", "when", "unless", "delay", "force", "quasiquote", "unquote", "apply", "eval", "call/cc", "map",
        "for-each", "quote", "vector", "list", "cons", "append", "display", "write", "error", "=>", "else", "vector-ref",
    ];
    match c {
        Cell::Pair(h, t) => {
            if let Cell::Symbol(s) = h.as_ref() {
                if INTERESTING.contains(&s.as_str()) {
                    out.insert(s.clone());
                }
            }
            heads(h, out);
            heads(t, out);
        }
        Cell::Vector(v) => {
            for x in v {
                heads(x, out);
            }
        }
        _ => {}
    }
}

/// Delta-debug a failing session. `fails` returns the mismatch kind if the session still fails.
pub fn shrink(forms: Vec<Cell>, kind: &str, fails: &dyn Fn(&[Cell]) -> Option<String>, budget: usize) -> Vec<Cell> {
    let mut cur = forms;
    let mut attempts = 0usize;
    let same = |k: Option<String>| k.as_deref() == Some(kind);
    // 1. drop whole forms, last to first, to a fixpoint
    let mut progress = true;
    while progress && attempts < budget {
        progress = false;
        let mut i = cur.len();
        while i > 0 && attempts < budget {
            i -= 1;
            if cur.len() <= 1 {
                break;
            }
            let mut cand = cur.clone();
            cand.remove(i);
            attempts += 1;
            if same(fails(&cand)) {
                cur = cand;
                progress = true;
            }
        }
    }
    // 2. simplify inside forms: replace a node by a constant or by one of its children
    let mut progress = true;
    while progress && attempts < budget {
        progress = false;
        for fi in 0..cur.len() {
            let n = count_nodes(&cur[fi]);
            let mut node = 1usize; // never replace the root with a constant first
            while node < n && attempts < budget {
                let mut done = false;
                let replacements: Vec<Box<dyn Fn(&Cell) -> Option<Cell>>> = vec![
                    Box::new(|c: &Cell| if matches!(c, Cell::Pair(_, _)) { Some(gen::int(0)) } else { None }),
                    Box::new(|c: &Cell| match c {
                        Cell::Pair(_, t) => t.iter().last().cloned().filter(|x| matches!(x, Cell::Pair(_, _) | Cell::Number(_))),
                        _ => None,
                    }),
                    Box::new(|c: &Cell| match c {
                        Cell::Pair(_, t) => t.car().cloned().filter(|x| matches!(x, Cell::Pair(_, _))),
                        _ => None,
                    }),
                ];
                for r in &replacements {
                    let mut idx = node as isize;
                    let cand_form = replace_node(&cur[fi], &mut idx, r.as_ref());
                    if format!("{:#}", cand_form) == format!("{:#}", cur[fi]) {
                        continue;
                    }
                    let mut cand = cur.clone();
                    cand[fi] = cand_form;
                    attempts += 1;
                    if same(fails(&cand)) {
                        cur = cand;
                        progress = true;
                        done = true;
                        break;
                    }
                    if attempts >= budget {
                        break;
                    }
                }
                if !done {
                    node += 1;
                }
                if count_nodes(&cur[fi]) <= node {
                    break;
                }
            }
        }
    }
    cur
}

pub fn signature(kind: &str, forms: &[Cell], at: usize) -> String {
    let mut hs = BTreeSet::new();
    if let Some(f) = forms.get(at) {
        heads(f, &mut hs);
    }
    // definitions the failing form relies on contribute their heads as well (bounded)
    for f in forms.iter().take(at) {
        heads(f, &mut hs);
    }
    let hs: Vec<String> = hs.into_iter().take(10).collect();
    format!("{}:{}", kind, hs.join("+"))
}

fn witness(forms: &[Cell], original: &[Cell], tags: &[String]) -> Json {
    Json::obj()
        .set("shrunk", gen::text_of(forms))
        .set("original", gen::text_of(original))
        .set("tags", Json::Arr(tags.iter().map(|t| Json::Str(t.clone())).collect()))
}

fn mismatch_of(forms: &[Cell]) -> Option<(usize, String, String)> {
    match diff_session(forms) {
        Verdict::Mismatch { at, kind, detail } => Some((at, kind, detail)),
        _ => None,
    }
}

/// full check of one session; returns true when it was compared to the end
pub fn check_session(sess: &Session, rep: &mut Report, case: (u64, u64), verbose: bool, unrelated: Option<Vec<Cell>>) -> bool {
    rep.evaluations += 1;
    let v = diff_session(&sess.forms);
    match v {
        Verdict::Agree { forms_compared, failures_seen } => {
            rep.count("forms_compared", forms_compared as u64);
            rep.count("failing_forms_compared", failures_seen as u64);
        }
        Verdict::ModelUndecided { at, why } => {
            rep.count("model_undecided_sessions", 1);
            rep.count("forms_compared", at as u64);
            rep.see("model_undecided_reasons", &format!("{:?}", why).chars().take(60).collect::<String>());
            if verbose {
                println!("model undecided at form {}: {:?}", at, why);
            }
            return false;
        }
        Verdict::Watchdog { at } => {
            rep.inconclusive(&format!("instruction watchdog at form {} of case {:?}", at, case));
            return false;
        }
        Verdict::Mismatch { at, kind, detail } => {
            let fails = |fs: &[Cell]| mismatch_of(fs).map(|m| m.1);
            let shrunk = shrink(sess.forms.clone(), &kind, &fails, 250);
            let (sat, _k, sdetail) = mismatch_of(&shrunk).unwrap_or((at, kind.clone(), detail.clone()));
            let sig = signature(&kind, &shrunk, sat);
            rep.violation(&sig, format!("{} || shrunk session: {}", sdetail, gen::text_of(&shrunk).replace('\n', " ")), witness(&shrunk, &sess.forms, &sess.tags), case);
            if verbose {
                println!("MISMATCH {}\n{}\nshrunk:\n{}", kind, detail, gen::text_of(&shrunk));
            }
            return false;
        }
    }
    // same outcome in every fresh VM instance
    let a = run_marwood(&sess.forms);
    let every = SECOND_RUN_COLLECTS_EVERY.load(std::sync::atomic::Ordering::Relaxed);
    let b = if every > 0 && case.1 % 2 == 0 {
        rep.count("second_fresh_vm_run_with_forced_collections", 1);
        run_marwood_collecting(&sess.forms, 1 + (case.1 / 2) % every)
    } else if every > 0 && case.1 % 4 == 1 {
        let (r, n) = run_marwood_high_utilisation(&sess.forms);
        rep.count("second_fresh_vm_run_at_high_heap_utilisation", 1);
        rep.count("natural_collections_in_high_utilisation_runs", n);
        r
    } else {
        run_marwood(&sess.forms)
    };
    for (i, (x, y)) in a.iter().zip(b.iter()).enumerate() {
        if !same_mw(x, y) {
            rep.violation(
                &signature("differs-between-fresh-vms", &sess.forms, i),
                format!("form #{} {:#}: VM1 {} vs VM2 {}", i, sess.forms[i], show_outcome(&x.outcome), show_outcome(&y.outcome)),
                witness(&sess.forms, &sess.forms, &sess.tags),
                case,
            );
            return false;
        }
    }
    rep.count("fresh_vm_pairs_compared", 1);
    // does not depend on unrelated earlier definitions (metamorphic)
    if let Some(unrel) = unrelated {
        let mut rng = Rng::new(case.1 ^ 0x5bd1e995);
        let mut mixed: Vec<(bool, Cell)> = vec![];
        let mut u = unrel.into_iter();
        for f in &sess.forms {
            while rng.chance(1, 3) {
                match u.next() {
                    Some(x) => mixed.push((false, x)),
                    None => break,
                }
            }
            mixed.push((true, f.clone()));
        }
        let all: Vec<Cell> = mixed.iter().map(|m| m.1.clone()).collect();
        let c = run_marwood(&all);
        let picked: Vec<&MwForm> = c.iter().zip(mixed.iter()).filter(|(_, m)| m.0).map(|(r, _)| r).collect();
        for (i, (x, y)) in a.iter().zip(picked.iter()).enumerate() {
            if !same_mw(x, y) {
                rep.violation(
                    &signature("depends-on-unrelated-definitions", &sess.forms, i),
                    format!("form #{} {:#}: alone {} vs with unrelated definitions interleaved {}", i, sess.forms[i], show_outcome(&x.outcome), show_outcome(&y.outcome)),
                    Json::obj().set("session", gen::text_of(&sess.forms)).set("with_unrelated", gen::text_of(&all)),
                    case,
                );
                return false;
            }
        }
        rep.count("unrelated_definition_runs_compared", 1);
    }
    true
}

pub fn gen_unrelated(rng: &mut Rng) -> Vec<Cell> {
    let mut g = gen::Gen::new(rng, Opts { output: false, callcc: false, wrappable_builtins: false, ..Opts::default() });
    g.prefix = "zz".into();
    let n = 1 + g.rng.usize(4);
    (0..n).map(|_| if g.rng.bool() { g.define_proc(None) } else { g.define_data() }).collect()
}

pub fn print_session(forms: &[Cell]) {
    let mut model = Machine::new();
    let mut vm = MwVm::new();
    for f in forms {
        let mo: Result<FormResult, Undecided> = model.eval_form(f);
        let mw = run_form(&mut vm, f);
        match mo {
            Ok(r) => println!("{:#}\n    model  : {}\n    marwood: {}", f, show_model(&r.outcome), show_outcome(&mw.outcome)),
            Err(u) => {
                println!("{:#}\n    model  : undecided {:?}\n    marwood: {}", f, u, show_outcome(&mw.outcome));
                break;
            }
        }
    }
}

/// regression stream for the fixed defect "top-level begin does not splice definitions"
fn toplevel_begin_stream(ctx: &Ctx, rep: &mut Report, index: u64) {
    let mut rng = ctx.rng("c01-toplevel-begin", index);
    let name = format!("tb{}", rng.below(1000));
    let v = rng.range(-50, 50);
    let forms = vec![gen::list(vec![gen::sym("begin"), gen::call("define", vec![gen::sym(&name), gen::int(v)])]), gen::sym(&name)];
    rep.evaluations += 1;
    match diff_session(&forms) {
        Verdict::Mismatch { at, kind, detail } => {
            rep.violation(&signature(&kind, &forms, at), detail, Json::obj().set("shrunk", gen::text_of(&forms)), (ctx.shard, index));
        }
        _ => {
            rep.count("toplevel_begin_define_agrees", 1);
        }
    }
}

pub fn opts_main() -> Opts {
    Opts::default()
}

pub fn run(ctx: &Ctx, rep: &mut Report) {
    let verbose = ctx.is_replay() || ctx.witness.is_some();
    if let Some(w) = &ctx.witness {
        if ctx.replay.is_none() {
            let text = w.get("shrunk").and_then(|t| t.as_str()).unwrap_or("").to_string();
            let mut forms = vec![];
            let mut rest: &str = &text;
            while let Ok((c, r)) = marwood::parse::parse_text(rest) {
                forms.push(c);
                match r {
                    Some(r) => rest = r,
                    None => break,
                }
            }
            print_session(&forms);
            return;
        }
    }
    let n = ctx.cases(25_000, 600_000);
    for index in ctx.indices(n) {
        let mut rng = ctx.rng("c01", index);
        if index % 97 == 13 {
            toplevel_begin_stream(ctx, rep, index);
            continue;
        }
        let with_failures = index % 7 == 3;
        let sess = gen::session(&mut rng, opts_main(), with_failures);
        let unrelated = if index % 4 == 0 { Some(gen_unrelated(&mut rng)) } else { None };
        if verbose {
            println!("--- session {} tags {:?}\n{}", index, sess.tags, gen::text_of(&sess.forms));
            print_session(&sess.forms);
        }
        let ok = check_session(&sess, rep, (ctx.shard, index), verbose, unrelated);
        if ok {
            let nontrivial = sess.tags.iter().filter(|t| !matches!(t.as_str(), "if" | "let" | "begin" | "output")).count() >= 2;
            if nontrivial {
                let key = format!("{}|{}", sess.tags.join(","), gen::text_of(&sess.forms));
                rep.nontrivial(hash_str(&key));
            }
            for t in &sess.tags {
                rep.see("feature_tags", t);
            }
            rep.see("tag_sets", &sess.tags.iter().take(6).cloned().collect::<Vec<_>>().join("+"));
            if index % 499 == 1 {
                rep.sample(Json::obj().set("tags", Json::Arr(sess.tags.iter().map(|t| Json::Str(t.clone())).collect())).set("session", gen::text_of(&sess.forms)));
            }
        }
    }
    if verbose {
        for v in &rep.violations {
            println!("VIOLATION {} :: {}", v.sig, v.detail);
        }
    }
}
