//! C09 — numeric comparison is one consistent total order across representations.
use crate::engines::c08::{eval_op, Outcome};
use crate::json::Json;
use crate::numoracle as no;
use crate::numpal::{self, Carrier};
use crate::report::Report;
use crate::rng::{hash_str, Rng};
use crate::Ctx;
use marwood::cell::Cell;
use marwood::vm::Vm;
use std::cmp::Ordering;

/// exact order of two non-NaN carriers (infinities handled)
fn order(a: &Carrier, b: &Carrier) -> Ordering {
    let fa = a.num.to_f64().unwrap_or(0.0);
    let fb = b.num.to_f64().unwrap_or(0.0);
    match (&a.value, &b.value) {
        (Some(x), Some(y)) => x.cmp(y),
        (None, None) => fa.partial_cmp(&fb).unwrap(), // both infinite
        (None, Some(_)) => {
            if fa > 0.0 {
                Ordering::Greater
            } else {
                Ordering::Less
            }
        }
        (Some(_), None) => {
            if fb > 0.0 {
                Ordering::Less
            } else {
                Ordering::Greater
            }
        }
    }
}

fn eval_bool(vm: &mut Vm, op: &str, args: &[&Carrier]) -> Result<bool, String> {
    let cells: Vec<Cell> = args.iter().map(|c| c.cell()).collect();
    match eval_op(vm, op, &cells) {
        Outcome::Other(s) if s == "#t" => Ok(true),
        Outcome::Other(s) if s == "#f" => Ok(false),
        Outcome::Other(s) => Err(format!("non-boolean:{}", s)),
        Outcome::Num(n) => Err(format!("non-boolean:{}", n)),
        Outcome::Err(_) => Err("error".to_string()),
        Outcome::Panic(p) => Err(format!("panic:{}:{}", p.file(), p.norm_message())),
    }
}

fn expect(op: &str, o: Ordering) -> bool {
    match op {
        "<" => o == Ordering::Less,
        "=" => o == Ordering::Equal,
        ">" => o == Ordering::Greater,
        "<=" => o != Ordering::Greater,
        ">=" => o != Ordering::Less,
        _ => unreachable!(),
    }
}

fn boundary(a: &Carrier, b: &Carrier) -> &'static str {
    // coarse class of *where* the pair sits, to keep different defects apart
    let big = |c: &Carrier| -> bool {
        match &c.value {
            Some(v) => v.numer().bits() > 53 || v.denom().bits() > 53,
            None => true,
        }
    };
    let neg = |c: &Carrier| c.num.to_f64().map(|f| f < 0.0).unwrap_or(false);
    match (big(a) || big(b), neg(a) || neg(b)) {
        (true, true) => "beyond-2^53,negative",
        (true, false) => "beyond-2^53",
        (false, true) => "small,negative",
        (false, false) => "small",
    }
}

fn wit(op: &str, args: &[&Carrier]) -> Json {
    Json::obj()
        .set("op", op)
        .set("operands", Json::Arr(args.iter().map(|a| Json::Str(format!("{}", a.num))).collect()))
        .set("bits", Json::Arr(args.iter().map(|a| Json::Str(match &a.num { marwood::number::Number::Float(f) => format!("{:016x}", f.to_bits()), _ => String::new() })).collect()))
        .set("reps", Json::Arr(args.iter().map(|a| Json::Str(a.rep.to_string())).collect()))
}

fn check_pair(vm: &mut Vm, a: &Carrier, b: &Carrier, rep: &mut Report, case: (u64, u64)) {
    let o = order(a, b);
    rep.see("rep_pairs", &format!("({},{})", a.rep, b.rep));
    let mut truths = 0;
    for op in ["<", "=", ">", "<=", ">="] {
        rep.evaluations += 1;
        let want = expect(op, o);
        match eval_bool(vm, op, &[a, b]) {
            Ok(got) => {
                if got && matches!(op, "<" | "=" | ">") {
                    truths += 1;
                }
                if got != want {
                    let bad = match (op, o) {
                        ("=", _) if got => "equal-though-different",
                        ("=", _) => "unequal-though-equal",
                        (_, Ordering::Equal) => "strict-order-on-equal-values",
                        _ if got => "order-flipped",
                        _ => "order-denied",
                    };
                    rep.violation(
                        &format!("{}:({},{}):{}:{}", op, a.rep, b.rep, bad, boundary(a, b)),
                        format!("({} {} {}) -> {} but the exact order is {:?}", op, a.show(), b.show(), got, o),
                        wit(op, &[a, b]),
                        case,
                    );
                }
            }
            Err(e) => rep.violation(&format!("{}:({},{}):{}", op, a.rep, b.rep, e), format!("({} {} {}) -> {}", op, a.show(), b.show(), e), wit(op, &[a, b]), case),
        }
    }
    rep.count("pairs", 1);
    if truths == 1 {
        rep.count("trichotomy_observed", 1);
    }
    // min / max
    for op in ["min", "max"] {
        rep.evaluations += 1;
        let cells = [a.cell(), b.cell()];
        match eval_op(vm, op, &cells) {
            Outcome::Num(n) => {
                let r = Carrier::new(n, "result");
                let want = if (op == "min") == (o == Ordering::Less) { a } else { b };
                // R7RS: the result equals the min/max value (it may be made inexact if any argument is inexact)
                if order(&r, want) != Ordering::Equal && !(o == Ordering::Equal) {
                    // allow inexact contagion only when the rounded value still orders correctly: compare exact values
                    rep.violation(
                        &format!("{}:({},{}):wrong-value:{}", op, a.rep, b.rep, boundary(a, b)),
                        format!("({} {} {}) -> {} but expected {}", op, a.show(), b.show(), r.show(), want.show()),
                        wit(op, &[a, b]),
                        case,
                    );
                } else if o == Ordering::Equal && order(&r, a) != Ordering::Equal {
                    rep.violation(&format!("{}:({},{}):wrong-value-on-equal", op, a.rep, b.rep), format!("({} {} {}) -> {}", op, a.show(), b.show(), r.show()), wit(op, &[a, b]), case);
                }
            }
            Outcome::Panic(p) => rep.violation(&format!("{}:({},{}):panic:{}", op, a.rep, b.rep, p.file()), format!("({} {} {}) panicked {}", op, a.show(), b.show(), p.message), wit(op, &[a, b]), case),
            Outcome::Err(e) => rep.violation(&format!("{}:({},{}):error", op, a.rep, b.rep), format!("({} {} {}) -> error {}", op, a.show(), b.show(), e), wit(op, &[a, b]), case),
            Outcome::Other(s) => rep.violation(&format!("{}:({},{}):non-number", op, a.rep, b.rep), format!("({} {} {}) -> {}", op, a.show(), b.show(), s), wit(op, &[a, b]), case),
        }
    }
}

fn check_unary(vm: &mut Vm, a: &Carrier, rep: &mut Report, case: (u64, u64)) {
    let zero = Carrier::new(marwood::number::Number::Fixnum(0), "zero");
    let o = order(a, &zero);
    for (op, want) in [("zero?", o == Ordering::Equal), ("positive?", o == Ordering::Greater), ("negative?", o == Ordering::Less)] {
        rep.evaluations += 1;
        match eval_bool(vm, op, &[a]) {
            Ok(got) if got == want => {}
            Ok(got) => rep.violation(&format!("{}:({}):disagrees-with-order", op, a.rep), format!("({} {}) -> {}", op, a.show(), got), wit(op, &[a]), case),
            Err(e) => rep.violation(&format!("{}:({}):{}", op, a.rep, e), format!("({} {}) -> {}", op, a.show(), e), wit(op, &[a]), case),
        }
    }
}

fn check_triple(vm: &mut Vm, a: &Carrier, b: &Carrier, c: &Carrier, rep: &mut Report, case: (u64, u64)) {
    // transitivity as *observed* (independent of the exact oracle)
    rep.count("triples", 1);
    for op in ["=", "<"] {
        rep.evaluations += 1;
        let ab = eval_bool(vm, op, &[a, b]);
        let bc = eval_bool(vm, op, &[b, c]);
        let ac = eval_bool(vm, op, &[a, c]);
        if let (Ok(true), Ok(true), Ok(false)) = (&ab, &bc, &ac) {
            rep.violation(
                &format!("{}:transitivity:({},{},{})", op, a.rep, b.rep, c.rep),
                format!("({op} {} {}) and ({op} {} {}) hold but ({op} {} {}) does not", a.show(), b.show(), b.show(), c.show(), a.show(), c.show(), op = op),
                wit(op, &[a, b, c]),
                case,
            );
        }
    }
    // variadic = conjunction over adjacent pairs (as observed)
    for op in ["<", "=", ">", "<=", ">="] {
        rep.evaluations += 1;
        let v = eval_bool(vm, op, &[a, b, c]);
        let ab = eval_bool(vm, op, &[a, b]);
        let bc = eval_bool(vm, op, &[b, c]);
        if let (Ok(v), Ok(x), Ok(y)) = (&v, &ab, &bc) {
            if *v != (*x && *y) {
                rep.violation(
                    &format!("{}:variadic-not-conjunction", op),
                    format!("({} {} {} {}) -> {} but pairwise {} and {}", op, a.show(), b.show(), c.show(), v, x, y),
                    wit(op, &[a, b, c]),
                    case,
                );
            }
        }
    }
}

pub fn run(ctx: &Ctx, rep: &mut Report) {
    let mut vm = Vm::new();
    let verbose = ctx.is_replay() || ctx.witness.is_some();
    if let Some(w) = &ctx.witness {
        let mut cs = vec![];
        if let (Some(ops), Some(rs), Some(bits)) = (w.get("operands").and_then(|o| o.as_arr()), w.get("reps").and_then(|o| o.as_arr()), w.get("bits").and_then(|o| o.as_arr())) {
            for ((o, r), b) in ops.iter().zip(rs.iter()).zip(bits.iter()) {
                let want = r.as_str().unwrap_or("");
                let n = if want == "flo" {
                    marwood::number::Number::Float(f64::from_bits(u64::from_str_radix(b.as_str().unwrap_or("0"), 16).unwrap_or(0)))
                } else {
                    let n = marwood::number::Number::parse(o.as_str().unwrap_or("0"), 10).unwrap();
                    match (want, &n) {
                        ("big", marwood::number::Number::Fixnum(i)) => marwood::number::Number::new_bigint(num::bigint::BigInt::from(*i)),
                        ("ratint", marwood::number::Number::Fixnum(i)) => marwood::number::Number::Rational(num::Rational32::from_integer(*i as i32)),
                        _ => n,
                    }
                };
                cs.push(Carrier::new(n, "replay"));
            }
        }
        if cs.len() == 2 {
            check_pair(&mut vm, &cs[0], &cs[1], rep, (0, 0));
        } else if cs.len() == 3 {
            check_triple(&mut vm, &cs[0], &cs[1], &cs[2], rep, (0, 0));
        } else if cs.len() == 1 {
            check_unary(&mut vm, &cs[0], rep, (0, 0));
        }
        for v in &rep.violations {
            println!("VIOLATION {} :: {}", v.sig, v.detail);
        }
        return;
    }
    let mut prng = Rng::for_case(ctx.seed, "c09-palette", 0, 0);
    let (ri, rr, rf) = if ctx.quick() { (10, 8, 20) } else { (40, 30, 120) };
    let exact = numpal::exact_palette(&mut prng, ri, rr);
    let floats = numpal::float_carriers(&mut prng, &exact, rf);
    let mut palette = exact.clone();
    palette.extend(floats);
    palette.sort_by(|a, b| order(a, b));
    rep.max("max_palette_size", palette.len() as u64);
    let n = palette.len();
    if ctx.replay.is_none() {
        let mut k: u64 = 0;
        for i in 0..n {
            if i as u64 % ctx.nshards == ctx.shard {
                check_unary(&mut vm, &palette[i], rep, (ctx.shard, u64::MAX));
            }
            for j in 0..n {
                k += 1;
                if k % ctx.nshards != ctx.shard {
                    continue;
                }
                check_pair(&mut vm, &palette[i], &palette[j], rep, (ctx.shard, u64::MAX));
                rep.nontrivial(hash_str(&format!("{}|{}|{}|{}", palette[i].num, palette[i].rep, palette[j].num, palette[j].rep)));
                if rep.want_sample() && k % 10007 == 0 {
                    rep.sample(Json::obj().set("ops", "< = > <= >= min max").set("lhs", palette[i].show()).set("rhs", palette[j].show()));
                }
            }
        }
    }
    let cases = ctx.cases(200_000, 5_000_000);
    for index in ctx.indices(cases) {
        let mut rng = ctx.rng("c09", index);
        // triples biased to near-equal values: pick a, then b, c among the carriers of nearby values
        let i = rng.usize(n);
        let near = |rng: &mut Rng, i: usize| -> usize {
            if rng.chance(2, 3) {
                // palette is roughly grouped by value (integer carriers adjacent); stay close
                let d = rng.range(-6, 6);
                ((i as i64 + d).rem_euclid(n as i64)) as usize
            } else {
                rng.usize(n)
            }
        };
        let j = near(&mut rng, i);
        let k = near(&mut rng, j);
        check_triple(&mut vm, &palette[i], &palette[j], &palette[k], rep, (ctx.shard, index));
        if verbose {
            println!("triple {} {} {}", palette[i].show(), palette[j].show(), palette[k].show());
        }
    }
    if verbose {
        for v in &rep.violations {
            println!("VIOLATION {} :: {}", v.sig, v.detail);
        }
    }
    let _ = no::zero();
}
