//! C16 — number->string and string->number are mutually inverse; literals denote what
//! string->number gives their spelling.
use crate::engines::c08::{eval_op, Outcome};
use crate::engines::c10::num_identical;
use crate::json::Json;
use crate::mw::catch;
use crate::numoracle as no;
use crate::numpal::{self, Carrier};
use crate::report::Report;
use crate::rng::{hash_str, Rng};
use crate::Ctx;
use marwood::cell::Cell;
use marwood::number::Number;
use marwood::vm::Vm;

fn wit(c: &Carrier, radix: u32) -> Json {
    Json::obj()
        .set("number", format!("{}", c.num))
        .set("rep", c.rep)
        .set("radix", radix as u64)
        .set("bits", match &c.num {
            Number::Float(f) => format!("{:016x}", f.to_bits()),
            _ => String::new(),
        })
}

fn sign_class(c: &Carrier) -> &'static str {
    match c.num.to_f64() {
        Some(f) if f < 0.0 || (f == 0.0 && f.is_sign_negative()) => "negative",
        _ => "non-negative",
    }
}

fn check(vm: &mut Vm, c: &Carrier, radix: u32, rep: &mut Report, case: (u64, u64), verbose: bool) -> bool {
    rep.evaluations += 1;
    rep.see("rep_radix", &format!("{}@{}", c.rep, radix));
    let cls = format!("{}:radix{}:{}", c.rep, radix, sign_class(c));
    // (number->string z r)
    let args: Vec<Cell> = if radix == 10 && case.1 % 2 == 0 { vec![c.cell()] } else { vec![c.cell(), Cell::Number(Number::Fixnum(radix as i64))] };
    let s = match eval_op(vm, "number->string", &args) {
        Outcome::Other(s) => s, // written form of a string: "…"
        Outcome::Panic(p) => {
            rep.violation(&format!("number->string:panic:{}:{}", p.file(), cls), format!("(number->string {} {}) panicked: {}", c.show(), radix, p.message), wit(c, radix), case);
            return false;
        }
        Outcome::Err(e) => {
            rep.violation(&format!("number->string:error:{}", cls), format!("(number->string {} {}) -> error {}", c.show(), radix, e), wit(c, radix), case);
            return false;
        }
        Outcome::Num(n) => {
            rep.violation(&format!("number->string:non-string:{}", cls), format!("(number->string {} {}) -> number {}", c.show(), radix, n), wit(c, radix), case);
            return false;
        }
    };
    // the result Cell was rendered with {:#}; recover the raw spelling by reading it back as a datum
    let spelling = match marwood::parse::parse_text(&s) {
        Ok((Cell::String(sp), None)) => sp,
        _ => {
            rep.violation(&format!("number->string:non-string:{}", cls), format!("(number->string {} {}) -> {}", c.show(), radix, s), wit(c, radix), case);
            return false;
        }
    };
    if verbose {
        println!("(number->string {} {}) -> {:?}", c.show(), radix, spelling);
    }
    // (string->number spelling r)
    let back = match eval_op(vm, "string->number", &[Cell::String(spelling.clone()), Cell::Number(Number::Fixnum(radix as i64))]) {
        Outcome::Num(n) => n,
        Outcome::Other(o) => {
            rep.violation(&format!("string->number:not-a-number:{}", cls), format!("{} prints as {:?} in radix {} which reads back as {}", c.show(), spelling, radix, o), wit(c, radix), case);
            return false;
        }
        Outcome::Err(e) => {
            rep.violation(&format!("string->number:error:{}", cls), format!("{} prints as {:?} in radix {}; reading back -> error {}", c.show(), spelling, radix, e), wit(c, radix), case);
            return false;
        }
        Outcome::Panic(p) => {
            rep.violation(&format!("string->number:panic:{}:{}", p.file(), cls), format!("{} prints as {:?} in radix {}; reading back panicked {}", c.show(), spelling, radix, p.message), wit(c, radix), case);
            return false;
        }
    };
    if !num_identical(&c.num, &back) {
        let bad = if no::is_exact(&c.num) != no::is_exact(&back) { "different-exactness" } else { "different-number" };
        rep.violation(
            &format!("inverse:{}:{}", bad, cls),
            format!("{} prints as {:?} in radix {}, which reads back as {} [{}]", c.show(), spelling, radix, numpal::trunc(&format!("{}", back)), no::rep(&back)),
            wit(c, radix),
            case,
        );
        return false;
    }
    // the spelling as a source literal with the matching prefix
    let prefix = match radix {
        2 => "#b",
        8 => "#o",
        16 => "#x",
        _ => "#d",
    };
    let use_prefix = radix != 10 || case.1 % 3 == 0;
    let lit = if use_prefix { format!("{}{}", prefix, spelling) } else { spelling.clone() };
    match catch(|| vm.eval_text(&lit).map(|(c, r)| (c, r.is_some()))) {
        Err(p) => {
            *vm = Vm::new();
            rep.violation(&format!("literal:panic:{}:{}", p.file(), cls), format!("literal {:?} panicked {}", lit, p.message), wit(c, radix), case);
            return false;
        }
        Ok(Ok((Cell::Number(n), false))) => {
            if !num_identical(&n, &back) {
                rep.violation(
                    &format!("literal:differs-from-string->number:{}", cls),
                    format!("literal {:?} evaluates to {} [{}] but string->number gives {} [{}]", lit, n, no::rep(&n), back, no::rep(&back)),
                    wit(c, radix),
                    case,
                );
                return false;
            }
        }
        Ok(other) => {
            let shown = match other {
                Ok((c, rem)) => format!("{:#} (remaining text: {})", c, rem),
                Err(e) => format!("error {:?}", e),
            };
            rep.violation(&format!("literal:not-a-number:{}", cls), format!("literal {:?} -> {} but string->number gives {}", lit, shown, back), wit(c, radix), case);
            return false;
        }
    }
    true
}

pub fn run(ctx: &Ctx, rep: &mut Report) {
    let mut vm = Vm::new();
    let verbose = ctx.is_replay() || ctx.witness.is_some();
    if let Some(w) = &ctx.witness {
        let want = w.get("rep").and_then(|r| r.as_str()).unwrap_or("");
        let radix = w.get("radix").and_then(|r| r.as_u64()).unwrap_or(10) as u32;
        let n = if want == "flo" {
            Number::Float(f64::from_bits(u64::from_str_radix(w.get("bits").and_then(|b| b.as_str()).unwrap_or("0"), 16).unwrap_or(0)))
        } else {
            let n = Number::parse(w.get("number").and_then(|b| b.as_str()).unwrap_or("0"), 10).unwrap();
            match (want, &n) {
                ("big", Number::Fixnum(i)) => Number::new_bigint(num::bigint::BigInt::from(*i)),
                ("ratint", Number::Fixnum(i)) => Number::Rational(num::Rational32::from_integer(*i as i32)),
                _ => n,
            }
        };
        check(&mut vm, &Carrier::new(n, "replay"), radix, rep, (0, 1), true);
        for v in &rep.violations {
            println!("VIOLATION {} :: {}", v.sig, v.detail);
        }
        return;
    }
    // fixed palettes of C08 / C09
    let mut prng = Rng::for_case(ctx.seed, "c16-palette", 0, 0);
    let exact = numpal::exact_palette(&mut prng, 20, 20);
    let floats = numpal::float_carriers(&mut prng, &exact, 50);
    if ctx.replay.is_none() {
        for (i, c) in exact.iter().enumerate() {
            if i as u64 % ctx.nshards != ctx.shard {
                continue;
            }
            for radix in [2u32, 8, 10, 16] {
                if check(&mut vm, c, radix, rep, (ctx.shard, u64::MAX), false) {
                    rep.nontrivial(hash_str(&format!("{}|{}|{}", c.num, c.rep, radix)));
                }
            }
        }
        for (i, c) in floats.iter().enumerate() {
            if i as u64 % ctx.nshards != ctx.shard || c.value.is_none() {
                continue;
            }
            if check(&mut vm, c, 10, rep, (ctx.shard, u64::MAX), false) {
                rep.nontrivial(hash_str(&format!("{:x}", c.num.to_f64().unwrap().to_bits())));
            }
        }
    }
    let cases = ctx.cases(400_000, 6_000_000);
    for index in ctx.indices(cases) {
        let mut rng = ctx.rng("c16", index);
        let c = match index % 5 {
            0 => Carrier::new(Number::Float(crate::engines::c10::gen_f64(&mut rng)), "injected"),
            1 => Carrier::new(Number::Fixnum((rng.next_u64() as i64) >> rng.usize(64)), "injected"),
            2 => Carrier::new(Number::new_bigint(crate::engines::c10::gen_bigint(&mut rng)), "injected"),
            3 => {
                let cs = numpal::rational_carriers(&mut rng, 1);
                cs[cs.len() - 1].clone()
            }
            _ => Carrier::new(crate::engines::c10::gen_number(&mut rng), "injected"),
        };
        if c.value.is_none() {
            continue;
        }
        let radix = if matches!(c.num, Number::Float(_)) { 10 } else { *rng.pick(&[2u32, 8, 10, 16]) };
        if check(&mut vm, &c, radix, rep, (ctx.shard, index), verbose) {
            rep.count("inverse_roundtrips", 1);
            rep.nontrivial(hash_str(&format!("{}|{}|{}", c.num, c.rep, radix)));
            if index % 9973 == 3 {
                rep.sample(Json::obj().set("z", c.show()).set("radix", radix as u64));
            }
        }
    }
    if verbose {
        for v in &rep.violations {
            println!("VIOLATION {} :: {}", v.sig, v.detail);
        }
    }
}
