//! C08 — exact arithmetic is exact; inexactness is never silently dropped.
//!
//! Offline-style checker over (op, operands-with-observed-representation, result) events against
//! arbitrary-precision rational arithmetic.
use crate::json::Json;
use crate::mw::{catch, PanicInfo};
use crate::numoracle as no;
use crate::numpal::{self, Carrier};
use crate::report::Report;
use crate::rng::{hash_str, Rng};
use crate::Ctx;
use marwood::cell::Cell;
use marwood::number::Number;
use marwood::vm::Vm;
use num::bigint::BigInt;
use num::{BigRational, Integer, One, Signed, ToPrimitive, Zero};

pub enum Outcome {
    Num(Number),
    Other(String),
    Err(String),
    Panic(PanicInfo),
}

pub fn eval_op(vm: &mut Vm, op: &str, args: &[Cell]) -> Outcome {
    let mut items = vec![Cell::Symbol(op.to_string())];
    items.extend(args.iter().cloned());
    let expr = Cell::new_list(items);
    match catch(|| vm.eval(&expr)) {
        Err(p) => {
            *vm = Vm::new();
            Outcome::Panic(p)
        }
        Ok(Err(e)) => Outcome::Err(format!("{:?}", e)),
        Ok(Ok(Cell::Number(n))) => Outcome::Num(n),
        Ok(Ok(c)) => Outcome::Other(format!("{:#}", c)),
    }
}

enum Truth {
    Value(BigRational),
    /// R7RS leaves it an error (zero divisor): anything but a panic is fine
    ErrorExpected,
}

fn is_int(v: &BigRational) -> bool {
    v.is_integer()
}

fn truth(op: &str, v: &[BigRational]) -> Option<Truth> {
    Some(match op {
        "+" => Truth::Value(v.iter().fold(BigRational::zero(), |a, b| a + b)),
        "*" => Truth::Value(v.iter().fold(BigRational::one(), |a, b| a * b)),
        "-" => {
            if v.len() == 1 {
                Truth::Value(-v[0].clone())
            } else {
                Truth::Value(v[1..].iter().fold(v[0].clone(), |a, b| a - b))
            }
        }
        "/" => {
            if v.len() == 1 {
                if v[0].is_zero() {
                    Truth::ErrorExpected
                } else {
                    Truth::Value(v[0].recip())
                }
            } else if v[1].is_zero() {
                Truth::ErrorExpected
            } else {
                Truth::Value(&v[0] / &v[1])
            }
        }
        "abs" => Truth::Value(v[0].abs()),
        "floor" => Truth::Value(v[0].floor()),
        "ceiling" => Truth::Value(v[0].ceil()),
        "truncate" => Truth::Value(v[0].trunc()),
        "numerator" => Truth::Value(BigRational::from_integer(v[0].numer().clone())),
        "denominator" => Truth::Value(BigRational::from_integer(v[0].denom().clone())),
        "expt" => {
            let e = v[1].to_integer().to_u32()?;
            Truth::Value(num::pow::pow(v[0].clone(), e as usize))
        }
        "quotient" | "remainder" | "modulo" => {
            if !is_int(&v[0]) || !is_int(&v[1]) {
                return None;
            }
            if v[1].is_zero() {
                return Some(Truth::ErrorExpected);
            }
            let a = v[0].to_integer();
            let b = v[1].to_integer();
            let r: BigInt = match op {
                "quotient" => &a / &b, // BigInt division truncates
                "remainder" => &a % &b,
                _ => a.mod_floor(&b),
            };
            Truth::Value(BigRational::from_integer(r))
        }
        _ => return None,
    })
}

fn boundary_tag(args: &[&Carrier]) -> String {
    let mut tags = vec![];
    for (i, a) in args.iter().enumerate() {
        let side = if args.len() == 1 { "x".to_string() } else if i == 0 { "lhs".to_string() } else if i == 1 { "rhs".to_string() } else { format!("arg{}", i) };
        if let Some(v) = &a.value {
            if v.is_integer() {
                let n = v.to_integer();
                if n == BigInt::from(i64::MIN) {
                    tags.push(format!("{}=i64::MIN", side));
                } else if n == BigInt::from(i32::MIN) {
                    tags.push(format!("{}=i32::MIN", side));
                } else if n == BigInt::from(-1) {
                    tags.push(format!("{}=-1", side));
                }
            } else if v.numer().to_i32() == Some(i32::MIN) {
                tags.push(format!("{}.numer=i32::MIN", side));
            }
        }
    }
    tags.join(",")
}

fn reps(args: &[&Carrier]) -> String {
    format!("({})", args.iter().map(|a| a.rep).collect::<Vec<_>>().join(","))
}

fn witness(op: &str, args: &[&Carrier]) -> Json {
    Json::obj()
        .set("op", op)
        .set("operands", Json::Arr(args.iter().map(|a| Json::Str(format!("{}", a.num))).collect()))
        .set("reps", Json::Arr(args.iter().map(|a| Json::Str(a.rep.to_string())).collect()))
        .set("origins", Json::Arr(args.iter().map(|a| Json::Str(a.origin.clone())).collect()))
}

fn f64_max() -> BigRational {
    BigRational::from_float(f64::MAX).unwrap()
}

/// Judge one event. Returns (bad-kind, detail) on violation.
pub fn judge(op: &str, args: &[&Carrier], out: &Outcome, rep: &mut Report) -> Option<(String, String)> {
    let vals: Vec<BigRational> = args.iter().map(|a| a.value.clone().unwrap()).collect();
    let t = truth(op, &vals)?;
    match (&t, out) {
        (_, Outcome::Panic(p)) => Some((format!("panic:{}:{}", p.file(), p.norm_message()), format!("panicked: {} at {}", p.message, p.location))),
        (Truth::ErrorExpected, _) => {
            rep.count("zero_divisor_cases", 1);
            None
        }
        (Truth::Value(tv), Outcome::Err(e)) => Some(("error".into(), format!("true value {} but marwood returned error {}", no::show(tv), e))),
        (Truth::Value(tv), Outcome::Other(c)) => Some(("non-number".into(), format!("true value {} but marwood returned {}", no::show(tv), c))),
        (Truth::Value(tv), Outcome::Num(r)) => {
            let int_op = matches!(op, "quotient" | "remainder" | "modulo");
            if no::is_exact(r) {
                rep.count("exact_results", 1);
                let rv = no::exact(r).unwrap();
                if &rv != tv {
                    return Some(("wrong-exact".into(), format!("exact result {} but the true value is {}", numpal::trunc(&format!("{}", r)), no::show(tv))));
                }
                None
            } else {
                rep.count("inexact_results", 1);
                if int_op {
                    return Some(("inexact-integer-division".into(), format!("inexact result {} for an exact integer operation (true value {})", r, no::show(tv))));
                }
                if no::representable(tv) {
                    return Some(("inexact-though-representable".into(), format!("inexact result {} although the exact result {} is representable", r, no::show(tv))));
                }
                // tolerance: 2^-50 * max(|operands|, |true|)
                if tv.abs() > f64_max() {
                    rep.count("skipped_beyond_f64_range", 1);
                    return None;
                }
                let rv = match no::exact(r) {
                    Some(v) => v,
                    None => return Some(("non-finite".into(), format!("result {} for finite true value {}", r, no::show(tv)))),
                };
                let mut m = tv.abs();
                for v in &vals {
                    if v.abs() > m {
                        m = v.abs();
                    }
                }
                let tol = m * no::pow2(-50);
                let err = (rv - tv).abs();
                rep.count("tolerance_checks", 1);
                if err > tol {
                    return Some(("out-of-tolerance".into(), format!("inexact result {} differs from true value {} by more than 2^-50 * max magnitude", r, no::show(tv))));
                }
                None
            }
        }
    }
}

fn record(op: &str, args: &[&Carrier], out: &Outcome, rep: &mut Report, case: (u64, u64), extra_sig: &str) {
    rep.evaluations += 1;
    rep.see("rep_tuples", &format!("{}{}", if args.len() > 2 { "variadic" } else { "" }, if args.len() > 2 { String::new() } else { reps(args) }));
    rep.see("ops", op);
    if let Some((bad, detail)) = judge(op, args, out, rep) {
        let shape = if args.len() > 2 { format!("variadic{}", extra_sig) } else { reps(args) };
        let mut sig = format!("{}:{}:{}", op, shape, bad);
        if bad.starts_with("panic") || bad == "wrong-exact" || bad == "error" {
            let tag = boundary_tag(args);
            if !tag.is_empty() {
                sig = format!("{}:{}", sig, tag);
            }
        }
        let detail = format!("({} {}) {}", op, args.iter().map(|a| a.show()).collect::<Vec<_>>().join(" "), detail);
        rep.violation(&sig, detail, witness(op, args), case);
    }
}

const BINARY: [&str; 7] = ["+", "-", "*", "/", "quotient", "remainder", "modulo"];
const UNARY: [&str; 8] = ["abs", "floor", "ceiling", "truncate", "numerator", "denominator", "-", "/"];

fn scheme_carriers(vm: &mut Vm, rng: &mut Rng, rep: &mut Report) -> Vec<Carrier> {
    // representations forced from Scheme and verified through the public enum
    let mut out = vec![];
    let vals: Vec<i64> = vec![0, 1, -1, 5, -7, 2147483647, -2147483648, 2147483648, 4294967296, -4294967297, i64::MAX, i64::MIN, rng.range(-1000000, 1000000), rng.next_u64() as i64];
    for v in vals {
        let exprs = vec![
            format!("(- (+ {} 18446744073709551616) 18446744073709551616)", v),
            format!("(/ {} 1)", v),
            format!("(/ (* 2 {}) 2)", v),
            format!("(* {} 1)", v),
            format!("(+ {} 0)", v),
        ];
        for e in exprs {
            if let Ok(Ok((Cell::Number(n), None))) = catch(|| vm.eval_text(&e)) {
                let c = Carrier::new(n, &format!("scheme:{}", e));
                // the carrier computation itself is a C08 event
                if c.value.as_ref() == Some(&BigRational::from_integer(BigInt::from(v))) && no::is_exact(&c.num) {
                    rep.see("scheme_forced_reps", c.rep);
                    out.push(c);
                }
            } else {
                *vm = Vm::new();
            }
        }
    }
    out
}

pub fn run(ctx: &Ctx, rep: &mut Report) {
    let mut vm = Vm::new();
    let verbose = ctx.is_replay() || ctx.witness.is_some();
    if let Some(w) = &ctx.witness {
        // direct replay of a recorded event: operands are re-read from their printed form
        let op = w.get("op").and_then(|o| o.as_str()).unwrap_or("+").to_string();
        let mut cs = vec![];
        if let (Some(ops), Some(rs)) = (w.get("operands").and_then(|o| o.as_arr()), w.get("reps").and_then(|o| o.as_arr())) {
            for (o, r) in ops.iter().zip(rs.iter()) {
                let text = o.as_str().unwrap_or("0");
                let want = r.as_str().unwrap_or("fix32");
                let n = Number::parse(text, 10).unwrap();
                let n = match (want, &n) {
                    ("big", Number::Fixnum(i)) => Number::new_bigint(BigInt::from(*i)),
                    ("ratint", Number::Fixnum(i)) => Number::Rational(num::Rational32::from_integer(*i as i32)),
                    _ => n,
                };
                cs.push(Carrier::new(n, "replay"));
            }
        }
        let refs: Vec<&Carrier> = cs.iter().collect();
        let cells: Vec<Cell> = cs.iter().map(|c| c.cell()).collect();
        let out = eval_op(&mut vm, &op, &cells);
        let shown = match &out {
            Outcome::Num(n) => format!("{} [{}]", n, no::rep(n)),
            Outcome::Other(s) => s.clone(),
            Outcome::Err(e) => format!("error {}", e),
            Outcome::Panic(p) => format!("PANIC {} at {}", p.message, p.location),
        };
        println!("({} {}) -> {}", op, refs.iter().map(|a| a.show()).collect::<Vec<_>>().join(" "), shown);
        record(&op, &refs, &out, rep, (0, 0), "");
        for v in &rep.violations {
            println!("VIOLATION {} :: {}", v.sig, v.detail);
        }
        return;
    }
    // palette: fixed boundary part + seeded random part (same for all shards so that pairs can be split)
    let mut prng = Rng::for_case(ctx.seed, "c08-palette", 0, 0);
    let (ri, rr) = if ctx.quick() { (14, 10) } else { (60, 50) };
    let mut palette = numpal::exact_palette(&mut prng, ri, rr);
    palette.extend(scheme_carriers(&mut vm, &mut prng, rep));
    rep.max("max_palette_size", palette.len() as u64);
    let n = palette.len();
    // binary ops over all pairs, split over shards
    let mut pair_idx: u64 = 0;
    if ctx.replay.is_none() {
        for i in 0..n {
            for j in 0..n {
                pair_idx += 1;
                if pair_idx % ctx.nshards != ctx.shard {
                    continue;
                }
                let a = &palette[i];
                let b = &palette[j];
                for op in BINARY {
                    let out = eval_op(&mut vm, op, &[a.cell(), b.cell()]);
                    record(op, &[a, b], &out, rep, (ctx.shard, u64::MAX), "");
                }
                rep.nontrivial(hash_str(&format!("{}|{}|{}|{}", a.num, a.rep, b.num, b.rep)));
                if rep.want_sample() && pair_idx % 7919 == 0 {
                    rep.sample(Json::obj().set("ops", "+ - * / quotient remainder modulo").set("lhs", a.show()).set("rhs", b.show()));
                }
            }
        }
        // unary ops and expt
        for (i, a) in palette.iter().enumerate() {
            if i as u64 % ctx.nshards != ctx.shard {
                continue;
            }
            for op in UNARY {
                let out = eval_op(&mut vm, op, &[a.cell()]);
                record(op, &[a], &out, rep, (ctx.shard, u64::MAX), "");
            }
            let max_e = 70;
            for e in 0..=max_e {
                // exponent carried as fixnum, and every 7th also as bignum / integer-valued rational
                let mut exps = vec![Carrier::new(Number::Fixnum(e), "injected")];
                if e % 7 == 3 {
                    exps.push(Carrier::new(Number::new_bigint(BigInt::from(e)), "injected"));
                    exps.push(Carrier::new(Number::Rational(num::Rational32::from_integer(e as i32)), "injected"));
                }
                for ec in &exps {
                    // keep results below ~2^20000 bits
                    if let Some(v) = &a.value {
                        if v.numer().bits() * e as u64 > 40_000 {
                            continue;
                        }
                    }
                    let out = eval_op(&mut vm, "expt", &[a.cell(), ec.cell()]);
                    record("expt", &[a, ec], &out, rep, (ctx.shard, u64::MAX), "");
                }
            }
        }
    }
    // random pairs/lists with fresh random operands (beyond the fixed palette)
    let cases = ctx.cases(200_000, 3_000_000);
    for index in ctx.indices(cases) {
        let mut rng = ctx.rng("c08", index);
        let fresh = |rng: &mut Rng| -> Carrier {
            match rng.usize(6) {
                0 => palette[rng.usize(n)].clone(),
                1 => {
                    let v = numpal::random_bits(rng, *rng.clone().pick(&[31usize, 32, 33, 63, 64, 65, 128, 256]));
                    let cs = numpal::integer_carriers(&v);
                    cs[rng.usize(cs.len())].clone()
                }
                2 => {
                    let base = BigInt::one() << *rng.pick(&[31usize, 32, 63, 64]);
                    let v = if rng.bool() { base + rng.range(-2, 2) } else { -base + rng.range(-2, 2) };
                    let cs = numpal::integer_carriers(&v);
                    cs[rng.usize(cs.len())].clone()
                }
                3 => {
                    let v = BigInt::from(rng.range(-100, 100));
                    let cs = numpal::integer_carriers(&v);
                    cs[rng.usize(cs.len())].clone()
                }
                _ => {
                    let cs = numpal::rational_carriers(rng, 1);
                    cs[cs.len() - 1].clone()
                }
            }
        };
        if index % 3 == 0 {
            // variadic + and *
            let k = 3 + rng.usize(2);
            let cs: Vec<Carrier> = (0..k).map(|_| fresh(&mut rng)).collect();
            let refs: Vec<&Carrier> = cs.iter().collect();
            let cells: Vec<Cell> = cs.iter().map(|c| c.cell()).collect();
            for op in ["+", "*"] {
                // are all partial results (in marwood's fold order: last operand first) representable?
                let mut acc = if op == "+" { BigRational::zero() } else { BigRational::one() };
                let mut inter_ok = true;
                for c in cs.iter().rev() {
                    let v = c.value.clone().unwrap();
                    acc = if op == "+" { acc + v } else { acc * v };
                    if !no::representable(&acc) {
                        inter_ok = false;
                    }
                }
                // also the left-to-right order
                let mut acc2 = if op == "+" { BigRational::zero() } else { BigRational::one() };
                for c in cs.iter() {
                    let v = c.value.clone().unwrap();
                    acc2 = if op == "+" { acc2 + v } else { acc2 * v };
                    if !no::representable(&acc2) {
                        inter_ok = false;
                    }
                }
                let out = eval_op(&mut vm, op, &cells);
                record(op, &refs, &out, rep, (ctx.shard, index), if inter_ok { ":intermediates-representable" } else { ":intermediate-not-representable" });
                rep.count("variadic_events", 1);
            }
            if verbose {
                println!("variadic {:?}", refs.iter().map(|c| c.show()).collect::<Vec<_>>());
            }
        } else {
            let a = fresh(&mut rng);
            let b = fresh(&mut rng);
            for op in BINARY {
                let out = eval_op(&mut vm, op, &[a.cell(), b.cell()]);
                record(op, &[&a, &b], &out, rep, (ctx.shard, index), "");
            }
            rep.nontrivial(hash_str(&format!("{}|{}|{}|{}", a.num, a.rep, b.num, b.rep)));
            if verbose {
                println!("pair {} {}", a.show(), b.show());
            }
        }
    }
    if verbose {
        for v in &rep.violations {
            println!("VIOLATION {} :: {}", v.sig, v.detail);
        }
    }
}
