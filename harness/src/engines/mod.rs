use crate::report::Report;
use crate::Ctx;

pub mod c10;
pub mod c11;
pub mod c20;
pub mod probe;

pub fn run(engine: &str, ctx: &Ctx) -> Option<Report> {
    let mut rep = Report::new(engine);
    match engine {
        "c10" => c10::run(ctx, &mut rep),
        "c11" => c11::run(ctx, &mut rep),
        "probe" => probe::run(ctx, &mut rep),
        "c20" => c20::run(ctx, &mut rep),
        _ => return None,
    }
    Some(rep)
}
