use crate::report::Report;
use crate::Ctx;

pub mod c20;

pub fn run(engine: &str, ctx: &Ctx) -> Option<Report> {
    let mut rep = Report::new(engine);
    match engine {
        "c20" => c20::run(ctx, &mut rep),
        _ => return None,
    }
    Some(rep)
}
