use crate::report::Report;
use crate::Ctx;

pub mod c01;
pub mod c02;
pub mod c03;
pub mod c04;
pub mod c05;
pub mod c06;
pub mod c07;
pub mod c08;
pub mod c09;
pub mod c10;
pub mod c11;
pub mod c12;
pub mod c13;
pub mod c14;
pub mod c15;
pub mod c16;
pub mod c17;
pub mod c18;
pub mod c19;
pub mod c20;
pub mod probe;
pub mod probe2;
pub mod probe3;

pub fn run(engine: &str, ctx: &Ctx) -> Option<Report> {
    let mut rep = Report::new(engine);
    match engine {
        "c01" => c01::run(ctx, &mut rep),
        "c02" => c02::run(ctx, &mut rep),
        "c03" => c03::run(ctx, &mut rep),
        "c04" => c04::run(ctx, &mut rep),
        "c05" => c05::run(ctx, &mut rep),
        "c06" => c06::run(ctx, &mut rep),
        "c07" => c07::run(ctx, &mut rep),
        "c08" => c08::run(ctx, &mut rep),
        "c09" => c09::run(ctx, &mut rep),
        "c10" => c10::run(ctx, &mut rep),
        "c11" => c11::run(ctx, &mut rep),
        "probe3" => probe3::run(ctx, &mut rep),
        "probe2" => probe2::run(ctx, &mut rep),
        "probe" => probe::run(ctx, &mut rep),
        "c12" => c12::run(ctx, &mut rep),
        "c13" => c13::run(ctx, &mut rep),
        "c14" => c14::run(ctx, &mut rep),
        "c15" => c15::run(ctx, &mut rep),
        "c16" => c16::run(ctx, &mut rep),
        "c17" => c17::run(ctx, &mut rep),
        "c18" => c18::run(ctx, &mut rep),
        "c19" => c19::run(ctx, &mut rep),
        "c20" => c20::run(ctx, &mut rep),
        _ => return None,
    }
    Some(rep)
}
