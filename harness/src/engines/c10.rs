//! C10 — written data reads back as the same data.
use crate::json::Json;
use crate::mw::catch;
use crate::numoracle as no;
use crate::report::Report;
use crate::rng::{hash_str, Rng};
use crate::Ctx;
use marwood::cell::Cell;
use marwood::number::Number;
use marwood::parse;
use marwood::vm::Vm;
use num::bigint::BigInt;
use num::{One, Rational32};

/// strict identity of data: structure; numbers by exact value and exactness; doubles by bit pattern
pub fn strict_eq(a: &Cell, b: &Cell) -> bool {
    // iterative along cdr to survive long lists
    let mut a = a;
    let mut b = b;
    loop {
        match (a, b) {
            (Cell::Pair(a1, a2), Cell::Pair(b1, b2)) => {
                if !strict_eq(a1, b1) {
                    return false;
                }
                a = a2;
                b = b2;
            }
            (Cell::Number(x), Cell::Number(y)) => return num_identical(x, y),
            (Cell::Vector(x), Cell::Vector(y)) => return x.len() == y.len() && x.iter().zip(y.iter()).all(|(p, q)| strict_eq(p, q)),
            (Cell::Bool(x), Cell::Bool(y)) => return x == y,
            (Cell::Char(x), Cell::Char(y)) => return x == y,
            (Cell::String(x), Cell::String(y)) => return x == y,
            (Cell::Symbol(x), Cell::Symbol(y)) => return x == y,
            (Cell::Nil, Cell::Nil) => return true,
            (Cell::Void, Cell::Void) => return true,
            (Cell::Undefined, Cell::Undefined) => return true,
            _ => return false,
        }
    }
}

pub fn num_identical(x: &Number, y: &Number) -> bool {
    match (x, y) {
        (Number::Float(p), Number::Float(q)) => p.to_bits() == q.to_bits(),
        (Number::Float(_), _) | (_, Number::Float(_)) => false,
        _ => no::exact(x) == no::exact(y),
    }
}

fn feature_of(c: &Cell) -> String {
    match c {
        Cell::Number(Number::Float(f)) => {
            let a = f.abs();
            if a == 0.0 {
                "float:zero".into()
            } else if a < f64::MIN_POSITIVE {
                "float:subnormal".into()
            } else if a < 1e-5 {
                "float:tiny".into()
            } else if a > 1e10 {
                if *f < 0.0 {
                    "float:large-negative".into()
                } else {
                    "float:large-positive".into()
                }
            } else if f.fract() == 0.0 {
                "float:integer-valued".into()
            } else {
                "float:mid".into()
            }
        }
        Cell::Number(n) => format!("number:{}", no::rep(n)),
        Cell::Char(c) => format!("char:{}", char_class(*c)),
        Cell::String(_) => "string".into(),
        Cell::Symbol(_) => "symbol".into(),
        Cell::Pair(_, _) => "pair".into(),
        Cell::Vector(_) => "vector".into(),
        Cell::Bool(_) => "bool".into(),
        Cell::Nil => "nil".into(),
        _ => "other".into(),
    }
}

fn char_class(c: char) -> &'static str {
    let u = c as u32;
    if c.is_control() {
        "control"
    } else if c.is_whitespace() {
        "whitespace"
    } else if u < 0x80 {
        if c.is_ascii_alphanumeric() {
            "ascii-alnum"
        } else {
            "ascii-punct"
        }
    } else if u < 0x800 {
        "2-byte"
    } else if u < 0x10000 {
        "3-byte"
    } else {
        "4-byte"
    }
}

/// first differing leaf (for signatures)
fn first_diff<'a>(a: &'a Cell, b: &'a Cell) -> Option<(&'a Cell, &'a Cell)> {
    match (a, b) {
        (Cell::Pair(a1, a2), Cell::Pair(b1, b2)) => first_diff(a1, b1).or_else(|| first_diff(a2, b2)),
        (Cell::Vector(x), Cell::Vector(y)) if x.len() == y.len() => {
            for (p, q) in x.iter().zip(y.iter()) {
                if let Some(d) = first_diff(p, q) {
                    return Some(d);
                }
            }
            None
        }
        _ => {
            if strict_eq(a, b) {
                None
            } else {
                Some((a, b))
            }
        }
    }
}

// ---------- generators ----------

pub fn gen_f64(rng: &mut Rng) -> f64 {
    loop {
        let f = match rng.usize(12) {
            0 => f64::from_bits(rng.next_u64()),
            1 => {
                // around the 1e10 format switch
                let base = 1e10f64.to_bits() as i64;
                f64::from_bits((base + rng.range(-3, 3)) as u64) * if rng.bool() { 1.0 } else { -1.0 }
            }
            2 => {
                let e = rng.range(0, 70) as i32;
                let base = (2f64).powi(e).to_bits() as i64;
                f64::from_bits((base + rng.range(-2, 2)) as u64)
            }
            3 => f64::from_bits(rng.below(1 << 52)), // subnormal
            4 => *rng.pick(&[0.0, -0.0, 1.0, -1.0, 0.5, 0.1, 0.2, 0.3, 1e21, 1e22, 1e-7, 5e-324, f64::MAX, f64::MIN_POSITIVE, 9007199254740992.0, 9007199254740993.0, 1e10, 10000000001.0, 9999999999.0, 123456.789]),
            5 => rng.range(-100000, 100000) as f64 / 8.0,
            6 => rng.range(-1_000_000, 1_000_000) as f64 / 1000.0,
            7 => (rng.next_u64() >> rng.usize(64)) as f64,
            8 => rng.f64_unit(),
            9 => rng.f64_unit() * 10f64.powi(rng.range(-30, 30) as i32),
            10 => -(rng.f64_unit() * 10f64.powi(rng.range(5, 20) as i32)),
            _ => {
                let m = rng.below(1 << 52);
                let e = rng.below(2047);
                f64::from_bits((rng.below(2) << 63) | (e << 52) | m)
            }
        };
        if f.is_finite() {
            return f;
        }
    }
}

pub fn gen_bigint(rng: &mut Rng) -> BigInt {
    let bits = *rng.pick(&[62usize, 63, 64, 65, 70, 100, 128, 200, 256]);
    let mut v = BigInt::one() << bits;
    match rng.usize(4) {
        0 => {}
        1 => v = v + BigInt::from(rng.range(-3, 3)),
        _ => {
            let mut r = BigInt::from(0);
            for _ in 0..(bits / 64 + 1) {
                r = (r << 64usize) + BigInt::from(rng.next_u64());
            }
            v = r >> (rng.usize(64));
        }
    }
    if rng.bool() {
        v = -v;
    }
    v
}

pub fn gen_number(rng: &mut Rng) -> Number {
    match rng.usize(10) {
        0 | 1 => Number::Fixnum(rng.range(-1000, 1000)),
        2 => {
            let b = *rng.pick(&[0i64, 1 << 31, -(1 << 31), 1 << 32, i64::MAX, i64::MIN, 1 << 53, (1 << 62)]);
            Number::Fixnum(b.wrapping_add(rng.range(-2, 2)))
        }
        3 => Number::Fixnum(rng.next_u64() as i64 >> rng.usize(64)),
        4 => Number::new_bigint(gen_bigint(rng)),
        5 => {
            // non-canonical: a bignum holding a small value
            Number::new_bigint(BigInt::from(rng.range(-5, 5)))
        }
        6 => {
            let n = rng.range(i32::MIN as i64 + 1, i32::MAX as i64) as i32;
            let d = rng.range(1, i32::MAX as i64) as i32;
            Number::Rational(Rational32::new(n, d))
        }
        7 => {
            let n = rng.range(-50, 50) as i32;
            let d = rng.range(1, 12) as i32;
            Number::Rational(Rational32::new(n, d))
        }
        _ => Number::Float(gen_f64(rng)),
    }
}

pub fn gen_char(rng: &mut Rng) -> char {
    loop {
        let u = match rng.usize(8) {
            0 | 1 => rng.below(0x80) as u32,
            2 => rng.below(0x100) as u32,
            3 => rng.below(0x3000) as u32,
            4 => rng.below(0x10000) as u32,
            5 => 0x10000 + rng.below(0x100000) as u32,
            6 => *rng.pick(&[0x20u32, 0x0a, 0x09, 0x0d, 0x00, 0x7f, 0x1b, 0x07, 0x08, 0x28, 0x29, 0x22, 0x5c, 0x3b, 0x23, 0x27, 0x85, 0xa0, 0x2028, 0x2003, 0xfeff, 0x78, 0x58]),
            _ => rng.below(0x110000) as u32,
        };
        if let Some(c) = char::from_u32(u) {
            return c;
        }
    }
}

pub fn gen_string(rng: &mut Rng) -> String {
    let n = rng.usize(8);
    (0..n).map(|_| gen_char(rng)).collect()
}

const SYM_INITIAL: &str = "abcxyzλ!$%&*/:<=>?^_~\\日Ω";
const SYM_SUBSEQ: &str = "abcxyz019+-.@;!$%&*/:<=>?^_~\\λ";

/// text that *might* be a symbol; the reader decides
fn gen_symbol_text(rng: &mut Rng) -> String {
    match rng.usize(6) {
        0 => rng.pick::<&str>(&["+", "-", "...", "1+", "-x", "->x", "a.b", "+a", "-", "..", "1/2/3", "1.2.3", "+.", "-.", ".a", "a;b", "\\x41;", "1e", "e1", "-e"]).to_string(),
        1 => rng.pick::<&str>(&["lambda", "quote", "define", "if", "set!", "quasiquote", "unquote", "else", "=>", "x", "list->vector", "call/cc"]).to_string(),
        _ => {
            let ini: Vec<char> = SYM_INITIAL.chars().collect();
            let sub: Vec<char> = SYM_SUBSEQ.chars().collect();
            let mut s = String::new();
            if rng.chance(1, 6) {
                s.push(*rng.pick(&['+', '-', '.', '1', '9']));
            } else if rng.chance(1, 8) {
                s.push(gen_char(rng));
            } else {
                s.push(*rng.pick(&ini));
            }
            for _ in 0..rng.usize(6) {
                if rng.chance(1, 10) {
                    s.push(gen_char(rng));
                } else {
                    s.push(*rng.pick(&sub));
                }
            }
            s
        }
    }
}

/// a symbol the reader can produce: its spelling reads back as exactly that symbol
pub fn gen_symbol(rng: &mut Rng) -> Option<String> {
    let t = gen_symbol_text(rng);
    match catch(|| parse::parse_text(&t)) {
        Ok(Ok((Cell::Symbol(name), None))) if name == t => Some(t),
        _ => None,
    }
}

pub fn gen_cell(rng: &mut Rng, depth: usize) -> Cell {
    let k = if depth == 0 { rng.usize(7) } else { rng.usize(11) };
    match k {
        0 => Cell::Bool(rng.bool()),
        1 => Cell::Number(gen_number(rng)),
        2 => Cell::Char(gen_char(rng)),
        3 => Cell::String(gen_string(rng)),
        4 => match gen_symbol(rng) {
            Some(s) => Cell::Symbol(s),
            None => Cell::Symbol("fallback".into()),
        },
        5 => Cell::Nil,
        6 => Cell::Number(Number::Float(gen_f64(rng))),
        7 => {
            let n = rng.usize(5);
            Cell::Vector((0..n).map(|_| gen_cell(rng, depth - 1)).collect())
        }
        8 => {
            let head = *rng.pick::<&str>(&["quote", "quasiquote", "unquote", "quote"]);
            Cell::new_list(vec![Cell::Symbol(head.into()), gen_cell(rng, depth - 1)])
        }
        9 => {
            let n = 1 + rng.usize(4);
            let items: Vec<Cell> = (0..n).map(|_| gen_cell(rng, depth - 1)).collect();
            let mut tail = gen_cell(rng, 0);
            if tail.is_nil() {
                tail = Cell::Number(Number::Fixnum(1));
            }
            Cell::new_improper_list(items, tail)
        }
        _ => {
            let n = rng.usize(5);
            Cell::new_list((0..n).map(|_| gen_cell(rng, depth - 1)).collect::<Vec<_>>())
        }
    }
}

fn wit(d_text: &str) -> Json {
    Json::obj().set("written", d_text.chars().take(600).collect::<String>())
}

/// returns true if all four round trips were performed
pub fn check_datum(d: &Cell, vm: &mut Vm, rep: &mut Report, case: (u64, u64), verbose: bool) -> bool {
    rep.evaluations += 1;
    let text = match catch(|| format!("{:#}", d)) {
        Ok(t) => t,
        Err(p) => {
            rep.violation(&format!("write:panic:{}", p.file()), format!("writer panicked: {} at {}", p.message, p.location), Json::obj().set("debug", format!("{:?}", d)), case);
            return false;
        }
    };
    if verbose {
        println!("datum {:?}\n written {:?}", d, text);
    }
    // (a) read back
    let back = match catch(|| parse::parse_text(&text).map(|(c, r)| (c, r.map(|s| s.to_string())))) {
        Err(p) => {
            rep.violation(&format!("read:panic:{}", p.file()), format!("reader panicked on {:?}: {} at {}", text, p.message, p.location), wit(&text), case);
            return false;
        }
        Ok(Err(e)) => {
            let f = first_leaf_feature(d);
            rep.violation(&format!("read:error:{}", f), format!("written text {:?} does not read back: {:?}", text, e), wit(&text), case);
            return false;
        }
        Ok(Ok((c, rem))) => {
            if let Some(r) = rem {
                rep.violation(&format!("read:leaves-remaining-text:{}", first_leaf_feature(d)), format!("written text {:?} reads as one datum plus remaining {:?}", text, r), wit(&text), case);
                return false;
            }
            c
        }
    };
    if !strict_eq(d, &back) {
        let (sig, det) = match first_diff(d, &back) {
            Some((x, y)) => (format!("read:different-datum:{}", feature_of(x)), format!("leaf {:?} was written and read back as {:?}", x, y)),
            None => ("read:different-structure".to_string(), String::new()),
        };
        rep.violation(&sig, format!("{} ; whole text {:?}", det, text.chars().take(200).collect::<String>()), wit(&text), case);
        return false;
    }
    // (b) writing again gives the same text
    let text2 = format!("{:#}", back);
    if text2 != text {
        rep.violation("rewrite:different-text", format!("{:?} re-written as {:?}", text, text2), wit(&text), case);
        return false;
    }
    // (c) quote d through the VM heap
    let q = Cell::new_list(vec![Cell::Symbol("quote".into()), d.clone()]);
    match catch(|| vm.eval(&q)) {
        Err(p) => {
            rep.violation(&format!("eval-quote:panic:{}", p.file()), format!("eval of (quote d) panicked: {} at {}", p.message, p.location), wit(&text), case);
            *vm = Vm::new();
            return false;
        }
        Ok(Err(e)) => {
            rep.violation(&format!("eval-quote:error:{}", first_leaf_feature(d)), format!("(quote {}) -> error {:?}", text, e), wit(&text), case);
            return false;
        }
        Ok(Ok(v)) => {
            if !strict_eq(d, &v) {
                let f = first_diff(d, &v).map(|(x, _)| feature_of(x)).unwrap_or_default();
                rep.violation(&format!("eval-quote:different-datum:{}", f), format!("(quote {}) -> {:#}", text, v), wit(&text), case);
                return false;
            }
        }
    }
    // (d) source text -> VM heap -> result
    let src = format!("(quote {}\n)", text);
    match catch(|| vm.eval_text(&src).map(|(c, r)| (c, r.is_some()))) {
        Err(p) => {
            rep.violation(&format!("eval-text-quote:panic:{}", p.file()), format!("eval_text panicked: {} at {}", p.message, p.location), wit(&text), case);
            *vm = Vm::new();
            return false;
        }
        Ok(Err(e)) => {
            rep.violation(&format!("eval-text-quote:error:{}", first_leaf_feature(d)), format!("{:?} -> error {:?}", src, e), wit(&text), case);
            return false;
        }
        Ok(Ok((v, rem))) => {
            if rem || !strict_eq(d, &v) {
                let f = first_diff(d, &v).map(|(x, _)| feature_of(x)).unwrap_or_default();
                rep.violation(&format!("eval-text-quote:different-datum:{}", f), format!("{:?} -> {:#}", src, v), wit(&text), case);
                return false;
            }
        }
    }
    true
}

fn first_leaf_feature(d: &Cell) -> String {
    match d {
        Cell::Pair(a, _) => first_leaf_feature(a),
        Cell::Vector(v) if !v.is_empty() => first_leaf_feature(&v[0]),
        other => feature_of(other),
    }
}

pub fn run(ctx: &Ctx, rep: &mut Report) {
    let mut vm = Vm::new();
    let verbose = ctx.is_replay();
    // Part 1: every Unicode scalar value as a character and inside a string (quick: U+0000..U+2FFF
    // plus a stride sample of all planes; thorough: all of them)
    if ctx.replay.is_none() {
        let mut chars = 0u64;
        let mut u = ctx.shard as u32;
        while u < 0x110000 {
            let take = ctx.tier == crate::Tier::Thorough || u < 0x3000 || (u % 61 == (ctx.seed % 61) as u32);
            if take {
                if let Some(c) = char::from_u32(u) {
                    chars += 1;
                    let d = Cell::new_list(vec![Cell::Char(c), Cell::String(format!("a{}b", c)), Cell::String(c.to_string())]);
                    if check_datum(&d, &mut vm, rep, (ctx.shard, u64::MAX), false) {
                        rep.nontrivial(0x1000_0000_0000 + u as u64);
                    }
                    rep.see("char_classes", char_class(c));
                }
            }
            u += ctx.nshards as u32;
        }
        rep.count("unicode_scalars_as_char_and_in_string", chars);
    }
    // Part 2: doubles by bit pattern, numbers, symbols, nested containers
    let n = ctx.cases(2_000_000, 40_000_000);
    for index in ctx.indices(n) {
        let mut rng = ctx.rng("c10", index);
        let d = match index % 4 {
            0 => Cell::Number(Number::Float(gen_f64(&mut rng))),
            1 => Cell::Number(gen_number(&mut rng)),
            _ => {
                let depth = 1 + rng.usize(6);
                gen_cell(&mut rng, depth)
            }
        };
        let ok = check_datum(&d, &mut vm, rep, (ctx.shard, index), verbose);
        rep.see("top_features", &feature_of(&d));
        if ok {
            rep.count("roundtrips_completed", 1);
            let t = format!("{:#}", d);
            rep.nontrivial(hash_str(&t));
            if index % 9973 == 7 {
                rep.sample(Json::obj().set("written", t.chars().take(160).collect::<String>()));
            }
        }
    }
    if verbose {
        for v in &rep.violations {
            println!("VIOLATION {} :: {}", v.sig, v.detail);
        }
    }
}
