//! C13 — sliced execution is equivalent to uninterrupted execution.
//!
//! Twin VMs: one evaluates each form uninterrupted (and measures its instruction count T through
//! the hook), the other prepares it and resumes with a budget sequence. Monitors: progress on
//! every resume (instruction counter advanced), bounded number of resumes (the bounded restatement
//! of "eventually completes"), and identical value / failure class / output / later-visible state.
use crate::diff::{classify, show_outcome, MwForm, MwOutcome, MwVm};
use crate::engines::{c01, c05};
use crate::gen;
use crate::json::Json;
use crate::mw::catch;
use crate::refscheme::d_of_cell;
use crate::report::Report;
use crate::rng::{hash_str, Rng};
use crate::Ctx;
use marwood::cell::Cell;

#[derive(Clone, Debug)]
pub enum Budgets {
    Constant(usize),
    Random { seed: u64, max: usize },
}

impl Budgets {
    fn describe(&self) -> String {
        match self {
            Budgets::Constant(b) => format!("constant-{}", b),
            Budgets::Random { max, .. } => format!("random-1..{}", max),
        }
    }
}

pub struct SlicedForm {
    pub form: MwForm,
    pub resumes: u64,
    pub stalled: bool,
    pub instr: u64,
}

/// uninterrupted twin: outcome and instruction count per form
pub fn run_whole(forms: &[Cell]) -> Vec<(MwForm, u64)> {
    let mut m = MwVm::new();
    let mut out = vec![];
    for f in forms {
        m.vm.verif_reset_counters();
        let r = crate::diff::run_form(&mut m, f);
        let t = m.vm.verif_stats().instr_count;
        out.push((r, t));
    }
    out
}

pub fn run_sliced(forms: &[Cell], budgets: &Budgets, whole: &[(MwForm, u64)], force_gc: bool) -> Vec<SlicedForm> {
    let mut m = MwVm::new();
    let mut out = vec![];
    let mut rng = match budgets {
        Budgets::Random { seed, .. } => Rng::new(*seed),
        _ => Rng::new(1),
    };
    for (fi, f) in forms.iter().enumerate() {
        m.events.borrow_mut().clear();
        m.vm.verif_reset_counters();
        let t_whole = whole.get(fi).map(|w| w.1).unwrap_or(0);
        let mut resumes = 0u64;
        let mut stalled = false;
        let prepared = catch(|| m.vm.prepare_eval(f));
        let outcome = match prepared {
            Err(p) => MwOutcome::Panic(p),
            Ok(Err(e)) => {
                let (c, p) = classify(&e);
                MwOutcome::Failure(c, p, e.to_string())
            }
            Ok(Ok(())) => {
                // generous cap: never loop forever in the harness
                let cap = 2 * t_whole + 100;
                loop {
                    let b = match budgets {
                        Budgets::Constant(b) => *b,
                        Budgets::Random { max, .. } => 1 + rng.usize(*max),
                    };
                    let before = m.vm.verif_stats().instr_count;
                    let r = catch(|| m.vm.run_count(b));
                    resumes += 1;
                    match r {
                        Err(p) => break MwOutcome::Panic(p),
                        Ok(Err(e)) => {
                            let (c, p) = classify(&e);
                            break MwOutcome::Failure(c, p, e.to_string());
                        }
                        Ok(Ok(Some(c))) => break MwOutcome::Value(d_of_cell(&c)),
                        Ok(Ok(None)) => {
                            let after = m.vm.verif_stats().instr_count;
                            if after <= before {
                                stalled = true;
                                break MwOutcome::Budget;
                            }
                            if force_gc {
                                m.vm.verif_force_gc();
                            }
                            if resumes > cap {
                                break MwOutcome::Budget;
                            }
                        }
                    }
                }
            }
        };
        let output = m.events.borrow().clone();
        let instr = m.vm.verif_stats().instr_count;
        let broken = matches!(outcome, MwOutcome::Budget | MwOutcome::Panic(_));
        // the stack trace recorded with a failure is part of what the failure reports
        let trace_frames = if matches!(outcome, MwOutcome::Failure(..)) { m.vm.last_stacktrace().map(|t| t.frames.len()) } else { None };
        out.push(SlicedForm { form: MwForm { outcome, output, trace_frames }, resumes, stalled, instr });
        if broken {
            break;
        }
    }
    out
}

fn same(a: &MwForm, b: &MwForm) -> bool {
    let out_same = a.output.len() == b.output.len() && a.output.iter().zip(b.output.iter()).all(|(x, y)| x.0 == y.0 && x.1 == y.1);
    let o = match (&a.outcome, &b.outcome) {
        (MwOutcome::Value(x), MwOutcome::Value(y)) => x == y,
        (MwOutcome::Failure(c1, p1, _), MwOutcome::Failure(c2, p2, _)) => c1 == c2 && p1 == p2 && a.trace_frames == b.trace_frames,
        _ => false,
    };
    out_same && o
}

fn bound(t: u64, b: &Budgets) -> u64 {
    match b {
        // tolerate either convention: a budget of b executes b or b-1 instructions
        Budgets::Constant(b) => {
            let per = (*b as u64).saturating_sub(1).max(1);
            (t + per - 1) / per + 2
        }
        Budgets::Random { .. } => t + 2,
    }
}

fn check(forms: &[Cell], budgets: &Budgets, whole: &[(MwForm, u64)], rep: &mut Report, case: (u64, u64), force_gc: bool, verbose: bool) -> bool {
    rep.evaluations += 1;
    let sliced = run_sliced(forms, budgets, whole, force_gc);
    let wit = || Json::obj().set("shrunk", gen::text_of(forms)).set("budgets", budgets.describe());
    for (i, s) in sliced.iter().enumerate() {
        let (w, t) = &whole[i];
        rep.count("resumes", s.resumes);
        rep.count("forms_sliced", 1);
        if verbose {
            println!("form #{} T={} resumes={} sliced={} whole={}", i, t, s.resumes, show_outcome(&s.form.outcome), show_outcome(&w.outcome));
        }
        if s.stalled {
            rep.violation(
                &format!("no-progress:{}", if let Budgets::Constant(b) = budgets { format!("constant-budget-{}", if *b <= 2 { b.to_string() } else { "n".into() }) } else { "random".into() }),
                format!("form #{} {:#}: a resume with budgets {} did not advance the instruction counter", i, forms[i], budgets.describe()),
                wit(),
                case,
            );
            return false;
        }
        if let MwOutcome::Panic(p) = &s.form.outcome {
            rep.violation(&format!("panic:{}", p.file()), format!("form #{} {:#}: sliced run panicked: {} at {}", i, forms[i], p.message, p.location), wit(), case);
            return false;
        }
        if let MwOutcome::Budget = &s.form.outcome {
            rep.violation("does-not-complete", format!("form #{} {:#}: T={} instructions uninterrupted, still running after {} resumes with {}", i, forms[i], t, s.resumes, budgets.describe()), wit(), case);
            return false;
        }
        if s.resumes > bound(*t, budgets) {
            rep.violation(
                "too-many-resumes",
                format!("form #{} {:#}: T={} instructions, {} resumes with {} (bound {})", i, forms[i], t, s.resumes, budgets.describe(), bound(*t, budgets)),
                wit(),
                case,
            );
            return false;
        }
        if !same(&s.form, w) {
            let kind = match (&s.form.outcome, &w.outcome) {
                (MwOutcome::Value(_), MwOutcome::Value(_)) => "value-differs",
                (MwOutcome::Failure(c1, p1, _), MwOutcome::Failure(c2, p2, _)) if c1 == c2 && p1 == p2 => "failure-stack-trace-differs",
                (MwOutcome::Failure(..), MwOutcome::Failure(..)) => "failure-differs",
                (MwOutcome::Value(_), _) => "value-instead-of-failure",
                _ => "failure-instead-of-value",
            };
            let kind = if s.form.output.len() != w.output.len() { "output-differs" } else { kind };
            rep.violation(
                &format!("sliced-differs:{}", kind),
                format!("form #{} {:#}: sliced ({}) -> {} [{:?} trace frames] but uninterrupted -> {} [{:?} trace frames]", i, forms[i], budgets.describe(), show_outcome(&s.form.outcome), s.form.trace_frames, show_outcome(&w.outcome), w.trace_frames),
                wit(),
                case,
            );
            return false;
        }
    }
    true
}

pub fn run(ctx: &Ctx, rep: &mut Report) {
    let verbose = ctx.is_replay() || ctx.witness.is_some();
    if let Some(w) = &ctx.witness {
        if ctx.replay.is_none() {
            let forms = c05::parse_forms(w.get("shrunk").and_then(|t| t.as_str()).unwrap_or(""));
            let b = w.get("budgets").and_then(|t| t.as_str()).unwrap_or("constant-1").to_string();
            let budgets = match b.strip_prefix("constant-") {
                Some(n) => Budgets::Constant(n.parse().unwrap_or(1)),
                None => Budgets::Random { seed: 1, max: 100 },
            };
            let whole = run_whole(&forms);
            check(&forms, &budgets, &whole, rep, (0, 0), true, true);
            for v in &rep.violations {
                println!("VIOLATION {} :: {}", v.sig, v.detail);
            }
            return;
        }
    }
    let n = ctx.cases(8_000, 100_000);
    for index in ctx.indices(n) {
        let mut rng = ctx.rng("c13", index);
        let sess = match index % 3 {
            0 => c05::session(&mut rng),
            1 => gen::session(&mut rng, c01::opts_main(), true),
            _ => gen::session(&mut rng, c01::opts_main(), false),
        };
        let whole = run_whole(&sess.forms);
        if whole.iter().any(|(f, _)| matches!(f.outcome, MwOutcome::Budget | MwOutcome::Panic(_))) {
            rep.inconclusive("uninterrupted twin hit the watchdog or panicked");
            continue;
        }
        let total_t: u64 = whole.iter().map(|w| w.1).sum();
        rep.max("max_instructions_in_a_session", total_t);
        let mut ok = true;
        if total_t <= 2000 && index % 6 < 2 {
            // constant budgets 1..64, exhaustively
            rep.count("short_programs_all_constant_budgets", 1);
            for b in 1..=64usize {
                ok &= check(&sess.forms, &Budgets::Constant(b), &whole, rep, (ctx.shard, index), b % 2 == 0, verbose && b < 3);
                if !ok {
                    break;
                }
            }
        } else {
            for j in 0..3u64 {
                let max = *rng.pick(&[3usize, 17, 100, 1000, 10_000]);
                let budgets = if j == 0 { Budgets::Constant(1 + rng.usize(8)) } else { Budgets::Random { seed: rng.next_u64(), max } };
                ok &= check(&sess.forms, &budgets, &whole, rep, (ctx.shard, index), j == 1, verbose);
                if !ok {
                    break;
                }
            }
        }
        if ok {
            rep.nontrivial(hash_str(&gen::text_of(&sess.forms)));
            if whole.iter().any(|(f, _)| matches!(f.outcome, MwOutcome::Failure(..))) {
                rep.count("sessions_with_failing_forms", 1);
            }
            if index % 199 == 3 {
                rep.sample(Json::obj().set("instructions", total_t).set("session", gen::text_of(&sess.forms)));
            }
        }
    }
    if verbose {
        for v in &rep.violations {
            println!("VIOLATION {} :: {}", v.sig, v.detail);
        }
    }
}
