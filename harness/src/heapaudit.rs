//! Independent heap auditor (DESIGN.md 4.3) over the hooked VM state: its own iterative
//! reachability traversal from the documented root set, and the assertions checked after every
//! observed collection.
use marwood::vm::gc::State;
use marwood::vm::vcell::VCell;
use marwood::vm::Vm;
use std::collections::HashSet;

pub struct Snapshot {
    pub cells: Vec<VCell>,
    /// collector state of every cell when the snapshot was taken
    pub allocated: Vec<bool>,
    /// the cell from which each reachable cell was first reached (usize::MAX: a root)
    pub parent: Vec<usize>,
    pub reachable: Vec<bool>,
    pub n_reachable: usize,
    pub n_allocated: usize,
    /// kinds of live data seen among reachable cells / roots
    pub has_continuation: bool,
    pub has_closure: bool,
    pub has_lexical_env: bool,
    pub has_vector: bool,
    pub next_opcode: String,
    pub sp: usize,
}

/// push the heap indices directly referenced by `v` (any variant that carries a reference)
fn refs_of(v: &VCell, out: &mut Vec<usize>) {
    match v {
        VCell::Ptr(p) => out.push(*p),
        VCell::Pair(a, b) => {
            out.push(*a);
            out.push(*b);
        }
        VCell::Closure(l, e) => {
            out.push(*l);
            out.push(*e);
        }
        VCell::Lambda(l) => {
            // the operand of a jump is a bytecode offset encoded as Ptr, not a heap reference
            let mut skip = false;
            for c in &l.bc {
                if skip {
                    skip = false;
                    continue;
                }
                if let VCell::OpCode(op) = c {
                    if matches!(op, marwood::vm::opcode::OpCode::Jmp | marwood::vm::opcode::OpCode::Jnt) {
                        skip = true;
                    }
                    continue;
                }
                refs_of(c, out);
            }
            for c in &l.args {
                refs_of(c, out);
            }
            for (c, _) in l.envmap.get_map() {
                refs_of(c, out);
            }
        }
        VCell::LexicalEnv(env) => {
            for i in 0..env.slot_len() {
                refs_of(&env.get(i), out);
            }
        }
        VCell::LexicalEnvPtr(p, _) => out.push(*p),
        VCell::Vector(vec) => {
            for i in 0..vec.len() {
                if let Some(c) = vec.get(i) {
                    refs_of(&c, out);
                }
            }
        }
        VCell::Continuation(k) => {
            let st = k.stack();
            for (i, c) in st.iter().enumerate() {
                if i > st.get_sp() {
                    break;
                }
                refs_of(c, out);
            }
            out.push(k.ip().0);
            out.push(k.ep());
        }
        VCell::InstructionPointer(l, _) => out.push(*l),
        VCell::EnvironmentPointer(e) => out.push(*e),
        // everything else carries no heap reference (unknown future variants are leaves)
        _ => {}
    }
}

pub fn roots(vm: &Vm) -> Vec<usize> {
    let mut r = vec![];
    let ge = vm.verif_globenv();
    for (sym, _slot) in ge.verif_bindings() {
        r.push(*sym);
    }
    for v in ge.iter_slots() {
        refs_of(v, &mut r);
    }
    let st = vm.verif_stack();
    let sp = st.get_sp();
    for (i, c) in st.iter().enumerate() {
        if i > sp {
            break;
        }
        refs_of(c, &mut r);
    }
    refs_of(vm.verif_acc(), &mut r);
    let s = vm.verif_stats();
    r.push(s.ip.0);
    r.push(s.ep);
    r
}

pub fn snapshot(vm: &Vm) -> Snapshot {
    let heap = vm.verif_heap();
    let cells: Vec<VCell> = heap.verif_cells().to_vec();
    let n = cells.len();
    let mut reachable = vec![false; n];
    let mut parent = vec![usize::MAX; n];
    let mut work: Vec<(usize, usize)> = roots(vm).into_iter().map(|r| (r, usize::MAX)).collect();
    let mut n_reachable = 0;
    let mut tmp = vec![];
    let (mut has_continuation, mut has_closure, mut has_lexical_env, mut has_vector) = (false, false, false, false);
    while let Some((i, from)) = work.pop() {
        if i >= n || reachable[i] {
            continue;
        }
        reachable[i] = true;
        parent[i] = from;
        n_reachable += 1;
        match &cells[i] {
            VCell::Continuation(_) => has_continuation = true,
            VCell::Closure(_, _) => has_closure = true,
            VCell::LexicalEnv(_) => has_lexical_env = true,
            VCell::Vector(_) => has_vector = true,
            _ => {}
        }
        tmp.clear();
        refs_of(&cells[i], &mut tmp);
        work.extend(tmp.iter().map(|t| (*t, i)));
    }
    let mut n_allocated = 0;
    let mut allocated = vec![false; n];
    for i in 0..n {
        if matches!(heap.verif_state(i), Some(State::Allocated) | Some(State::Used)) {
            n_allocated += 1;
            allocated[i] = true;
        }
    }
    let s = vm.verif_stats();
    let next_opcode = match cells.get(s.ip.0) {
        Some(VCell::Lambda(l)) => match l.bc.get(s.ip.1) {
            Some(VCell::OpCode(op)) => format!("{:?}", op),
            _ => "?".into(),
        },
        _ => "?".into(),
    };
    Snapshot { cells, allocated, parent, reachable, n_reachable, n_allocated, has_continuation, has_closure, has_lexical_env, has_vector, next_opcode, sp: s.sp }
}

#[derive(Debug, Clone)]
pub struct Finding {
    pub kind: String,
    pub detail: String,
}

fn kind_of(v: &VCell) -> &'static str {
    match v {
        VCell::Pair(_, _) => "pair",
        VCell::Vector(_) => "vector",
        VCell::String(_) => "string",
        VCell::Symbol(_) => "symbol",
        VCell::Number(_) => "number",
        VCell::Closure(_, _) => "closure",
        VCell::Lambda(_) => "lambda",
        VCell::LexicalEnv(_) => "lexical-env",
        VCell::Continuation(_) => "continuation",
        VCell::BuiltInProc(_) => "builtin",
        VCell::Macro(_) => "macro",
        VCell::Nil => "nil",
        VCell::Bool(_) => "bool",
        VCell::Char(_) => "char",
        VCell::Undefined => "undefined",
        VCell::Void => "void",
        _ => "internal",
    }
}

/// Assertions 1-4 (C03) after a collection; `pre` is the snapshot taken immediately before it.
pub fn audit_after(vm: &Vm, pre: &Snapshot) -> Vec<Finding> {
    let mut out = vec![];
    let heap = vm.verif_heap();
    let cells = heap.verif_cells();
    let free: &[usize] = heap.verif_free_list();
    let free_set: HashSet<usize> = free.iter().cloned().collect();
    if free_set.len() != free.len() {
        out.push(Finding { kind: "free-list-has-duplicates".into(), detail: format!("{} entries, {} distinct", free.len(), free_set.len()) });
    }
    // 1 + 2: nothing reachable before the collection was reclaimed or changed
    for i in 0..pre.cells.len() {
        if !pre.reachable[i] {
            continue;
        }
        if !pre.allocated[i] {
            // a reference to a cell that was already free before this collection
            out.push(Finding { kind: "dangling-reference-to-free-cell".into(), detail: format!("cell ${:x} is referenced {} but was free before the collection", i, path(pre, i)) });
            if out.len() > 5 {
                return out;
            }
            continue;
        }
        let st = heap.verif_state(i);
        if st == Some(State::Free) || free_set.contains(&i) {
            out.push(Finding { kind: format!("live-{}-reclaimed", kind_of(&pre.cells[i])), detail: format!("cell ${:x} ({}) was reachable {} before the collection and is free after it", i, pre.cells[i], path(pre, i)) });
            if out.len() > 5 {
                return out;
            }
            continue;
        }
        if cells[i] != pre.cells[i] {
            out.push(Finding { kind: format!("live-{}-changed", kind_of(&pre.cells[i])), detail: format!("cell ${:x} was {} before the collection and is {} after it", i, pre.cells[i], cells[i]) });
            if out.len() > 5 {
                return out;
            }
        }
    }
    // 3: free list <=> state Free; no Used survives a sweep
    for i in 0..cells.len() {
        match heap.verif_state(i) {
            Some(State::Free) => {
                if !free_set.contains(&i) {
                    out.push(Finding { kind: "free-state-not-on-free-list".into(), detail: format!("cell ${:x}", i) });
                    break;
                }
            }
            Some(State::Used) => {
                out.push(Finding { kind: "mark-survives-sweep".into(), detail: format!("cell ${:x} still marked after the sweep", i) });
                break;
            }
            Some(State::Allocated) => {
                if free_set.contains(&i) {
                    out.push(Finding { kind: "allocated-cell-on-free-list".into(), detail: format!("cell ${:x}", i) });
                    break;
                }
            }
            None => {
                out.push(Finding { kind: "collector-map-too-small".into(), detail: format!("cell ${:x} has no state", i) });
                break;
            }
        }
    }
    // 4: the symbol table is a bijection between names and allocated symbol cells
    let table = heap.verif_symbol_table();
    for (name, idx) in table {
        let ok = matches!(cells.get(*idx), Some(VCell::Symbol(s)) if s.as_str() == name.as_str()) && heap.verif_state(*idx) == Some(State::Allocated);
        if !ok {
            out.push(Finding { kind: "symbol-table-entry-dangling".into(), detail: format!("{:?} -> ${:x} which holds {}", name, idx, cells.get(*idx).map(|c| c.to_string()).unwrap_or_default()) });
            break;
        }
    }
    for (i, c) in cells.iter().enumerate() {
        if let VCell::Symbol(s) = c {
            if heap.verif_state(i) == Some(State::Allocated) && table.get(s.as_str()) != Some(&i) {
                out.push(Finding { kind: "allocated-symbol-not-interned".into(), detail: format!("symbol {} at ${:x} but the table says {:?}", s, i, table.get(s.as_str())) });
                break;
            }
        }
    }
    out
}

/// Assertion 5 (C12): immediately after a collection the allocated set equals the reachable set.
/// Returns the kinds of retained-unreachable cells.
pub fn exactness(vm: &Vm) -> Vec<(usize, &'static str)> {
    let post = snapshot(vm);
    let heap = vm.verif_heap();
    let mut out = vec![];
    for i in 0..post.cells.len() {
        if heap.verif_state(i) == Some(State::Allocated) && !post.reachable[i] {
            out.push((i, kind_of(&post.cells[i])));
            if out.len() > 20 {
                break;
            }
        }
    }
    out
}

/// how a cell is reached from the roots: "root" or "from $a (kind) <- $b (kind) <- root"
pub fn path(s: &Snapshot, i: usize) -> String {
    let mut out = String::new();
    let mut cur = i;
    let mut n = 0;
    loop {
        let p = s.parent[cur];
        if p == usize::MAX {
            out.push_str("from a root");
            break;
        }
        out.push_str(&format!("from ${:x} ({}) ", p, kind_of(&s.cells[p])));
        cur = p;
        n += 1;
        if n > 6 {
            out.push_str("...");
            break;
        }
    }
    out
}

/// Scan every allocated cell for direct references to free cells (regardless of reachability).
pub fn dangling_scan(vm: &Vm) -> Vec<String> {
    let heap = vm.verif_heap();
    let cells = heap.verif_cells();
    let mut out = vec![];
    let mut tmp = vec![];
    for (i, c) in cells.iter().enumerate() {
        if heap.verif_state(i) != Some(State::Allocated) {
            continue;
        }
        tmp.clear();
        refs_of(c, &mut tmp);
        for t in &tmp {
            if *t < cells.len() && heap.verif_state(*t) == Some(State::Free) {
                out.push(format!("${:x} ({}: {}) -> free ${:x}", i, kind_of(c), c.to_string().chars().take(80).collect::<String>(), t));
                if out.len() > 8 {
                    return out;
                }
            }
        }
    }
    out
}
