//! Counting global allocator (installed by the worker binary): live and peak host bytes.
//! It shadows nothing but two atomic counters, updated in the same call as the allocation.
use std::alloc::{GlobalAlloc, Layout, System};
use std::sync::atomic::{AtomicUsize, Ordering};

pub struct Counting;

static LIVE: AtomicUsize = AtomicUsize::new(0);
static PEAK: AtomicUsize = AtomicUsize::new(0);

unsafe impl GlobalAlloc for Counting {
    unsafe fn alloc(&self, layout: Layout) -> *mut u8 {
        let p = System.alloc(layout);
        if !p.is_null() {
            let l = LIVE.fetch_add(layout.size(), Ordering::Relaxed) + layout.size();
            PEAK.fetch_max(l, Ordering::Relaxed);
        }
        p
    }
    unsafe fn dealloc(&self, ptr: *mut u8, layout: Layout) {
        System.dealloc(ptr, layout);
        LIVE.fetch_sub(layout.size(), Ordering::Relaxed);
    }
    unsafe fn realloc(&self, ptr: *mut u8, layout: Layout, new_size: usize) -> *mut u8 {
        let p = System.realloc(ptr, layout, new_size);
        if !p.is_null() {
            if new_size >= layout.size() {
                let l = LIVE.fetch_add(new_size - layout.size(), Ordering::Relaxed) + (new_size - layout.size());
                PEAK.fetch_max(l, Ordering::Relaxed);
            } else {
                LIVE.fetch_sub(layout.size() - new_size, Ordering::Relaxed);
            }
        }
        p
    }
}

pub fn live_bytes() -> usize {
    LIVE.load(Ordering::Relaxed)
}
pub fn peak_bytes() -> usize {
    PEAK.load(Ordering::Relaxed)
}
pub fn reset_peak() {
    PEAK.store(LIVE.load(Ordering::Relaxed), Ordering::Relaxed);
}
