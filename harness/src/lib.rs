//! mwv — runtime-monitoring harness for strtok/marwood (see /verif/DESIGN.md).
pub mod engines;
pub mod alloc;
pub mod diff;
pub mod gen;
pub mod heapaudit;
pub mod json;
pub mod mw;
pub mod numoracle;
pub mod numpal;
pub mod refscheme;
pub mod report;
pub mod rng;
pub mod sandbox;
pub mod synrules;

#[derive(Clone, Copy, Debug, Eq, PartialEq)]
pub enum Tier {
    Quick,
    Thorough,
}

#[derive(Clone, Debug)]
pub struct Ctx {
    pub seed: u64,
    pub shard: u64,
    pub nshards: u64,
    pub tier: Tier,
    /// replay exactly this case index (of this shard) and print details
    pub replay: Option<u64>,
    /// name of the cargo profile this binary was built with (release / chk / dev)
    pub build: String,
    /// multiplier on workload sizes (default 1.0)
    pub scale: f64,
    /// free-form engine argument (sub-lane selection, child-mode payloads)
    pub arg: Option<String>,
    /// witness object of a replay file (direct replay of an enumerated case)
    pub witness: Option<json::Json>,
}

impl Ctx {
    pub fn quick(&self) -> bool {
        self.tier == Tier::Quick
    }
    /// number of cases for this shard given totals for the two tiers
    pub fn cases(&self, quick_total: u64, thorough_total: u64) -> u64 {
        let total = if self.quick() { quick_total } else { thorough_total };
        let total = (total as f64 * self.scale) as u64;
        (total + self.nshards - 1) / self.nshards
    }
    pub fn rng(&self, engine: &str, index: u64) -> rng::Rng {
        rng::Rng::for_case(self.seed, engine, self.shard, index)
    }
    pub fn is_replay(&self) -> bool {
        self.replay.is_some()
    }
    /// iterate case indices (all, or only the replayed one)
    pub fn indices(&self, n: u64) -> Box<dyn Iterator<Item = u64>> {
        match self.replay {
            Some(i) => Box::new(std::iter::once(i)),
            None => Box::new(0..n),
        }
    }
}
