"""Per-property configuration of the orchestrator: engine, lanes (cargo profile, sub-lane argument),
evidence texts. Counts in evidence are always measured by the run; nothing here is a count."""

TRUSTED_COMMON = [
    "rustc/cargo build /repo's working tree faithfully; the worker links marwood by path with feature 'verif'",
    "the verif hooks are read-only except for triggering the production collector",
]

CHECKS = {}

CHECKS["C20"] = {
    "engine": "c20",
    "level": "exploration",
    "lanes_quick": [("release", None)],
    "lanes_thorough": [("release", None), ("chk", None)],
    "exhaustive_claim": True,
    "floors": {"highlighted_outputs": 1000, "check_true": 1000, "enumerated_strings": 1000},
    "rule": "exhaustive: every string of <= L lexemes (quick L=5, thorough L=7) over the 11-lexeme alphabet "
            "{ ( ) [ ] #( \" ; newline space a #\\( } with every cursor 0..=len+2, plus random longer Unicode texts with 4 random "
            "cursors each (incl. past the end and inside multi-byte characters). One evaluation = one (text, cursor) pair checked on "
            "both highlight and highlight_check. A text is non-trivial when at least one cursor produced a highlighted (changed) "
            "output; distinct = distinct texts by hash.",
    "assumptions": TRUSTED_COMMON + [
        "the token stream is marwood's own lex::scan (the property is phrased 'in the token stream'); scanner correctness is C11",
        "'the bracket at or just before the cursor' is read loosely: when a non-bracket token sits at the cursor and a bracket just "
        "before it, both 'unchanged' and 'partner of that bracket' are accepted; when two brackets qualify either partner is accepted",
        "highlight_check may be true only if a bracket token intersects bytes cursor-2..=cursor+1 (widest reading of 'within one position')",
    ],
    "explanation": "reference partner finder (proper nesting, '(' '[' '{' '#(' open, ')' ']' '}' close) compared with "
                   "ReplHighlighter::highlight byte for byte; highlight_check bounded by a window predicate; panics caught and reported",
}

CHECKS["C11"] = {
    "engine": "c11",
    "level": "exploration",
    "lanes_quick": [("release", None)],
    "lanes_thorough": [("release", None), ("chk", None)],
    "floors": {"scans_ok": 10000, "data_parsed": 10000, "prefixes_inside_datum": 10000, "parse_incomplete": 100, "eval_text_loops": 100},
    "rule": "cases by index mod 8: random Unicode strings (1/8), token soup over 64 lexemes incl. degenerate ones (2/8), character-level "
            "mutations of prelude.scm slices and of generated well-formed data (2/8), generated well-formed datum sequences with all bracket "
            "spellings, quote sugar, dotted tails, vectors, number prefixes, comments and odd whitespace (3/8). For each well-formed sequence "
            "every token-boundary prefix is additionally checked (counted as one evaluation each). A case is non-trivial when its text scans "
            "and at least one datum of more than one token was parsed; distinct = distinct texts by hash.",
    "assumptions": TRUSTED_COMMON + [
        "whitespace is what Rust's char::is_whitespace says, comments run from ';' to end of line (the gap scanner's definition)",
        "'the tokens of one datum' is decided by an independent bracket-counting delimiter over token types; the consumed-token count is "
        "compared only when the parser returns Ok, and '#x'-style prefixes followed by a non-atom are treated as malformed (not checked)",
        "cases run in sandboxed child processes; a child death or 20 s of silence is a violation only if it reproduces twice in isolation at 60 s",
    ],
    "explanation": "independent predicates over lex::scan / parse::parse / parse::parse_text / Vm::eval_text calls: span sanity, gap content, "
                   "consumed-token count vs independent delimiter, remaining-text pointer equality, loop termination and visit count, "
                   "Incomplete vs error at every token-boundary cut",
}

CHECKS["C10"] = {
    "engine": "c10",
    "level": "exploration",
    "lanes_quick": [("release", None)],
    "lanes_thorough": [("release", None), ("chk", None)],
    "floors": {"roundtrips_completed": 100000, "unicode_scalars_as_char_and_in_string": 10000},
    "rule": "part 1: Unicode scalar values (quick: all of U+0000..U+2FFF plus every 61st code point of all planes; thorough: all 1,112,064) each as a "
            "character, inside a string between ASCII letters and as a one-character string; part 2 by index mod 4: a finite double by bit pattern "
            "(12 distributions incl. the 1e10 notation switch +-3 ulp, powers of two +-2 ulp, subnormals, extremes), a number of any representation "
            "(fixnum boundaries, bignums of 62..256 bits, non-canonical small bignums, reduced rationals), or a recursive datum of depth <= 6 "
            "(lists, improper lists, vectors, quote/quasiquote/unquote forms, strings and chars over all of Unicode, symbols whose spelling the "
            "reader itself classifies as that symbol). Each datum goes through four round trips (write->read, re-write, eval of (quote d), "
            "eval_text of its source). Non-trivial = all four round trips ran to completion; distinct = distinct written texts by hash.",
    "assumptions": TRUSTED_COMMON + [
        "identity of data is the harness's strict comparison: structure, numbers by exact value and exactness (BigRational), doubles by bit pattern",
        "'symbols that the reader can produce' is decided by the reader: a candidate spelling is used only if parse_text returns that symbol",
        "NaN and infinities are excluded (the property says finite doubles)",
    ],
    "explanation": "format!(\"{:#}\") / parse::parse_text / Vm::eval / Vm::eval_text composed four ways and compared with a strict structural identity",
}

NUM_TRUST = TRUSTED_COMMON + [
    "oracle arithmetic is num::BigRational / BigInt (shared trusted base with marwood); none of marwood's representation dispatch is shared",
    "operands are handed to Vm::eval as Cell::Number values of the intended representation (fix32/fix64/big/rat/ratint/flo), which the public "
    "API permits; a second set of carriers is computed by Scheme expressions and binned by the representation actually observed",
]

CHECKS["C08"] = {
    "engine": "c08",
    "level": "exploration",
    "lanes_quick": [("release", None), ("chk", None)],
    "lanes_thorough": [("release", None), ("chk", None)],
    "floors": {"exact_results": 100000, "tolerance_checks": 10000, "variadic_events": 1000, "zero_divisor_cases": 100},
    "rule": "all ordered pairs of a palette (fixed boundary part: 0, +-1, +-2, +-2^31/32/53/63/64 +-{0,1,2}; seeded random part: 16..256-bit "
            "integers and reduced rationals up to 2^31-1; every integer carried as fixnum, bignum and integer-valued rational where it fits; plus "
            "carriers computed in Scheme) under + - * / quotient remainder modulo; every carrier under abs floor ceiling truncate numerator "
            "denominator, unary - and /, and expt with exponents 0..70 (exponent also carried as bignum / integer-valued rational); plus random "
            "pairs and 3-4 element lists for variadic + and *. One evaluation = one (op operands) call judged against exact rational arithmetic. "
            "distinct_nontrivial counts distinct (lhs value, lhs representation, rhs value, rhs representation) pairs.",
    "assumptions": NUM_TRUST + [
        "representable = integer, or lowest-terms numerator and denominator both fit in i32 (the implementation's exact rational type)",
        "results whose true magnitude exceeds f64::MAX are outside the tolerance oracle (no double can be within 2^-50 relative of them)",
        "zero divisors: any returned error is accepted, only a panic is reported",
    ],
    "explanation": "event log {op, operands with observed representation, result} checked offline-style against BigRational arithmetic: exactness, "
                   "representability, 2^-50 tolerance, truncating/flooring integer division",
}

CHECKS["C09"] = {
    "engine": "c09",
    "level": "exploration",
    "lanes_quick": [("release", None), ("chk", None)],
    "lanes_thorough": [("release", None), ("chk", None)],
    "floors": {"pairs": 50000, "triples": 10000, "trichotomy_observed": 50000},
    "rule": "all ordered pairs of the C08 palette extended with doubles (integers near 2^31/32/52/53/62/63/64 +-2 ulp, +-0.0, subnormals, +-inf, "
            "f64 extremes, the nearest double of every exact palette member and its two neighbours, random bit patterns) under < = > <= >= min max; "
            "every carrier under zero? positive? negative?; sampled triples (biased to neighbours in value order) for transitivity of = and < and "
            "for variadic-equals-conjunction. distinct_nontrivial counts distinct (value, representation) ordered pairs.",
    "assumptions": NUM_TRUST + ["NaN is excluded (the property says so); infinities are ordered below/above every finite value"],
    "explanation": "truth values of the comparison procedures compared with the exact rational order; transitivity and variadic consistency checked on "
                   "the observed answers themselves",
}

CHECKS["C16"] = {
    "engine": "c16",
    "level": "exploration",
    "lanes_quick": [("release", None), ("chk", None)],
    "lanes_thorough": [("release", None), ("chk", None)],
    "floors": {"inverse_roundtrips": 100000},
    "rule": "every member of the C08/C09 palettes at every applicable radix (exact: 2, 8, 10, 16; inexact finite: 10), plus random doubles by bit "
            "pattern, fixnums, bignums (62..256 bits), reduced rationals of both signs. One evaluation = number->string, string->number on the "
            "result, identity check (exact value and exactness; doubles by bit pattern), and the spelling evaluated as a source literal with the "
            "matching #b/#o/#d/#x prefix. distinct_nontrivial counts distinct (number, representation, radix) triples that completed the round trip.",
    "assumptions": NUM_TRUST,
    "explanation": "composition (string->number (number->string z r) r) executed in the VM and compared with z; literal evaluation compared with string->number",
}

CHECKS["C04"] = {
    "engine": "c04",
    "level": "exploration",
    "lanes_quick": [("release", None)],
    "lanes_thorough": [("release", None)],
    "exhaustive_claim": True,
    "timeout_thorough": 3 * 3600,
    "floors": {"control_nontail_growth_observed": 1, "loops_run": 1000, "instructions_observed": 1000000},
    "rule": "every composition of the 23 tail contexts (if both arms, cond clause/else/=>, case clause/else/=>, last of and/or, when, unless, "
            "let, let*, letrec, named let, begin, lambda body, body after internal define, call/cc receiver body, apply of a thunk, eval, a mixed "
            "one) to depth 2 (quick) / 3 (thorough) is enumerated; per composition 3 (quick) / 6 (thorough) programs with self, 2- and 3-procedure "
            "mutual recursion, seeded caller/callee arities 0..4 with and without rest parameters, and leaf call forms {direct, apply with list, "
            "apply spread, eval of a quoted call, call/cc directly on the callee}; thorough adds the full 5x5x2x2 arity grid at depth 1. Every program "
            "runs with n = 10, 10^3, 10^5 (eval-containing programs: 2*10^4 in quick) and must return 'done with the counter at -1. "
            "exhaustive refers to the enumerated context compositions. Non-trivial = loop completed for all n and high-water marks were compared; "
            "distinct = distinct program texts.",
    "assumptions": TRUSTED_COMMON + [
        "stack height is sampled at instruction boundaries (hook): growth inside one instruction is invisible, O(n) growth is not",
        "constant = high-water(n=10^5) <= high-water(n=10^3) + 32 slots (a missed tail call costs >= 4 slots per iteration)",
        "a non-tail control loop must show growth, otherwise the run is inconclusive",
    ],
    "explanation": "per-instruction stack high-water counter (verif hook) compared across n for generated tail-recursive loops",
}

# ---- texts for MANIFEST.json (tools/gen_manifest.py) ----
MANIFEST_TEXT = {}
NOT_APPLICABLE = {}

MANIFEST_TEXT["C20"] = {
    "technique": "runtime monitoring: differential oracle (independent bracket matcher over the token stream) on exhaustively enumerated and random inputs; panic recorder",
    "design_ref": "DESIGN.md 6 C20",
    "level_text": "Every (text, cursor) over the property's alphabet up to 5 (quick) / 7 (thorough) lexemes is executed against the real "
                  "highlighter and compared byte-for-byte with an independent reference; random longer Unicode texts extend reach beyond the bound. "
                  "This is exhaustive exploration of a bounded input space, not a proof for all texts.",
    "level_note": "Trusts marwood's scanner for the token stream (C11 monitors it), the harness's own partner finder, and rustc. "
                  "Loose wording in the property is read in the most permissive way so the check never demands more than the statement.",
}

MANIFEST_TEXT["C11"] = {
    "technique": "runtime monitoring: per-call invariant predicates (span/gap/consumption/remaining-text/incompleteness) over random, soup, mutated and generated well-formed inputs, in sandboxed child processes (hang/abort observer)",
    "design_ref": "DESIGN.md 6 C11",
    "level_text": "Millions of reader calls are observed and every call is judged by independent predicates (gap scanner, bracket-counting delimiter, "
                  "pointer-equality of the remaining text). The incompleteness clause is checked at every token boundary of every generated "
                  "well-formed sequence. Exploration: it says the contract held on the texts produced, not on all texts.",
    "level_note": "Trusts the harness's delimiter and gap scanner (about 80 lines), Rust's Unicode tables, and the process sandbox. Lexer-level "
                  "Incomplete (unterminated string) is not second-guessed because that would need an independent lexer.",
}

MANIFEST_TEXT["C10"] = {
    "technique": "runtime monitoring: round-trip oracle (write/read/re-write/quote-eval) with a strict identity comparison over generated data, all Unicode scalars and doubles by bit pattern",
    "design_ref": "DESIGN.md 6 C10",
    "level_text": "Each generated datum is pushed through the real printer, reader and VM heap and compared with itself under a comparison stricter than "
                  "the library's own equality. Reach comes from the generator (all character classes exhaustively in thorough, doubles by bit pattern "
                  "around every format switch). Exploration, not proof.",
    "level_note": "Trusts the strict comparison (60 lines), num's BigRational for exact values, and that the generator's symbol filter (the reader itself) "
                  "matches the property's 'symbols that the reader can produce'.",
}

MANIFEST_TEXT["C08"] = {
    "technique": "runtime monitoring: event-log checker against an arbitrary-precision rational oracle over a boundary-biased operand palette in every representation, release and overflow-checked builds",
    "design_ref": "DESIGN.md 6 C08",
    "level_text": "Every operator is driven over all ordered pairs of a boundary-biased palette in each representation (about 2*10^5 events per build in quick) "
                  "and each result is judged by exact rational arithmetic. Known representation-pair fallbacks that the pinned unit tests fix are listed as "
                  "open findings by (operator, representation pair, kind); anything else is a violation.",
    "level_note": "Trusts num's BigInt/BigRational. The palette is finite: values between the boundaries are only sampled.",
}
MANIFEST_TEXT["C09"] = {
    "technique": "runtime monitoring: comparison results checked against the exact rational order over all palette pairs in every representation; transitivity/variadic consistency checked on observed answers",
    "design_ref": "DESIGN.md 6 C09",
    "level_text": "All ordered pairs of a palette of exact numbers in every representation plus adversarially adjacent doubles are compared by the VM and by "
                  "exact arithmetic; sampled triples check transitivity independent of the oracle.",
    "level_note": "Trusts num's BigRational and BigRational::from_float for the exact value of a double.",
}
MANIFEST_TEXT["C16"] = {
    "technique": "runtime monitoring: inverse-function oracle (print, read back, compare by exact value/exactness/bit pattern) plus literal-vs-string->number agreement",
    "design_ref": "DESIGN.md 6 C16",
    "level_text": "Hundreds of thousands of numbers per run across representations, signs and radices go through the real procedures and must come back "
                  "identical; the printed spelling is also evaluated as a prefixed literal.",
    "level_note": "Trusts the identity comparison and num's BigRational.",
}

MANIFEST_TEXT["C04"] = {
    "technique": "runtime monitoring: invariant at a hook (stack high-water mark per instruction boundary) compared across iteration counts for exhaustively enumerated tail-context compositions",
    "design_ref": "DESIGN.md 6 C04",
    "level_text": "The context space of R7RS 3.5 up to the stated depth is enumerated completely and each program is actually executed for 10^5 iterations "
                  "under a counter that sees every instruction boundary; arities, recursion shapes and call forms are sampled per composition.",
    "level_note": "Trusts the max_sp hook (5 lines in the run loop) and that 32 slots of slack separate constant from linear growth.",
}
