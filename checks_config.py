"""Per-property configuration of the orchestrator: engine, lanes (cargo profile, sub-lane argument),
evidence texts. Counts in evidence are always measured by the run; nothing here is a count."""

TRUSTED_COMMON = [
    "rustc/cargo build /repo's working tree faithfully; the worker links marwood by path with feature 'verif'",
    "the verif hooks are read-only except for triggering the production collector",
]

CHECKS = {}

CHECKS["C20"] = {
    "engine": "c20",
    "level": "exploration",
    "lanes_quick": [("release", None)],
    "lanes_thorough": [("release", None), ("chk", None)],
    "exhaustive_claim": True,
    "floors": {"highlighted_outputs": 1000, "check_true": 1000, "enumerated_strings": 1000},
    "rule": "exhaustive: every string of <= L lexemes (quick L=5, thorough L=7) over the 11-lexeme alphabet "
            "{ ( ) [ ] #( \" ; newline space a #\\( } with every cursor 0..=len+2, plus random longer Unicode texts with 4 random "
            "cursors each (incl. past the end and inside multi-byte characters). One evaluation = one (text, cursor) pair checked on "
            "both highlight and highlight_check. A text is non-trivial when at least one cursor produced a highlighted (changed) "
            "output; distinct = distinct texts by hash.",
    "assumptions": TRUSTED_COMMON + [
        "the token stream is marwood's own lex::scan (the property is phrased 'in the token stream'); scanner correctness is C11",
        "'the bracket at or just before the cursor' is read loosely: when a non-bracket token sits at the cursor and a bracket just "
        "before it, both 'unchanged' and 'partner of that bracket' are accepted; when two brackets qualify either partner is accepted",
        "highlight_check may be true only if a bracket token intersects bytes cursor-2..=cursor+1 (widest reading of 'within one position')",
    ],
    "explanation": "reference partner finder (proper nesting, '(' '[' '{' '#(' open, ')' ']' '}' close) compared with "
                   "ReplHighlighter::highlight byte for byte; highlight_check bounded by a window predicate; panics caught and reported",
}

CHECKS["C11"] = {
    "engine": "c11",
    "level": "exploration",
    "lanes_quick": [("release", None)],
    "lanes_thorough": [("release", None), ("chk", None)],
    "floors": {"scans_ok": 10000, "data_parsed": 10000, "prefixes_inside_datum": 10000, "parse_incomplete": 100, "eval_text_loops": 100},
    "rule": "cases by index mod 8: random Unicode strings (1/8), token soup over 64 lexemes incl. degenerate ones (2/8), character-level "
            "mutations of prelude.scm slices and of generated well-formed data (2/8), generated well-formed datum sequences with all bracket "
            "spellings, quote sugar, dotted tails, vectors, number prefixes, comments and odd whitespace (3/8). For each well-formed sequence "
            "every token-boundary prefix is additionally checked (counted as one evaluation each). A case is non-trivial when its text scans "
            "and at least one datum of more than one token was parsed; distinct = distinct texts by hash.",
    "assumptions": TRUSTED_COMMON + [
        "whitespace is what Rust's char::is_whitespace says, comments run from ';' to end of line (the gap scanner's definition)",
        "'the tokens of one datum' is decided by an independent bracket-counting delimiter over token types; the consumed-token count is "
        "compared only when the parser returns Ok, and '#x'-style prefixes followed by a non-atom are treated as malformed (not checked)",
        "cases run in sandboxed child processes; a child death or 20 s of silence is a violation only if it reproduces twice in isolation at 60 s",
    ],
    "explanation": "independent predicates over lex::scan / parse::parse / parse::parse_text / Vm::eval_text calls: span sanity, gap content, "
                   "consumed-token count vs independent delimiter, remaining-text pointer equality, loop termination and visit count, "
                   "Incomplete vs error at every token-boundary cut",
}

CHECKS["C10"] = {
    "engine": "c10",
    "level": "exploration",
    "lanes_quick": [("release", None)],
    "lanes_thorough": [("release", None), ("chk", None)],
    "floors": {"roundtrips_completed": 100000, "unicode_scalars_as_char_and_in_string": 10000},
    "rule": "part 1: Unicode scalar values (quick: all of U+0000..U+2FFF plus every 61st code point of all planes; thorough: all 1,112,064) each as a "
            "character, inside a string between ASCII letters and as a one-character string; part 2 by index mod 4: a finite double by bit pattern "
            "(12 distributions incl. the 1e10 notation switch +-3 ulp, powers of two +-2 ulp, subnormals, extremes), a number of any representation "
            "(fixnum boundaries, bignums of 62..256 bits, non-canonical small bignums, reduced rationals), or a recursive datum of depth <= 6 "
            "(lists, improper lists, vectors, quote/quasiquote/unquote forms, strings and chars over all of Unicode, symbols whose spelling the "
            "reader itself classifies as that symbol). Each datum goes through four round trips (write->read, re-write, eval of (quote d), "
            "eval_text of its source). Non-trivial = all four round trips ran to completion; distinct = distinct written texts by hash.",
    "assumptions": TRUSTED_COMMON + [
        "identity of data is the harness's strict comparison: structure, numbers by exact value and exactness (BigRational), doubles by bit pattern",
        "'symbols that the reader can produce' is decided by the reader: a candidate spelling is used only if parse_text returns that symbol",
        "NaN and infinities are excluded (the property says finite doubles)",
    ],
    "explanation": "format!(\"{:#}\") / parse::parse_text / Vm::eval / Vm::eval_text composed four ways and compared with a strict structural identity",
}

NUM_TRUST = TRUSTED_COMMON + [
    "oracle arithmetic is num::BigRational / BigInt (shared trusted base with marwood); none of marwood's representation dispatch is shared",
    "operands are handed to Vm::eval as Cell::Number values of the intended representation (fix32/fix64/big/rat/ratint/flo), which the public "
    "API permits; a second set of carriers is computed by Scheme expressions and binned by the representation actually observed",
]

CHECKS["C08"] = {
    "engine": "c08",
    "level": "exploration",
    "lanes_quick": [("release", None), ("chk", None)],
    "lanes_thorough": [("release", None), ("chk", None)],
    "floors": {"exact_results": 100000, "tolerance_checks": 10000, "variadic_events": 1000, "zero_divisor_cases": 100},
    "rule": "all ordered pairs of a palette (fixed boundary part: 0, +-1, +-2, +-2^31/32/53/63/64 +-{0,1,2}; seeded random part: 16..256-bit "
            "integers and reduced rationals up to 2^31-1; every integer carried as fixnum, bignum and integer-valued rational where it fits; plus "
            "carriers computed in Scheme) under + - * / quotient remainder modulo; every carrier under abs floor ceiling truncate numerator "
            "denominator, unary - and /, and expt with exponents 0..70 (exponent also carried as bignum / integer-valued rational); plus random "
            "pairs and 3-4 element lists for variadic + and *. One evaluation = one (op operands) call judged against exact rational arithmetic. "
            "distinct_nontrivial counts distinct (lhs value, lhs representation, rhs value, rhs representation) pairs.",
    "assumptions": NUM_TRUST + [
        "representable = integer, or lowest-terms numerator and denominator both fit in i32 (the implementation's exact rational type)",
        "results whose true magnitude exceeds f64::MAX are outside the tolerance oracle (no double can be within 2^-50 relative of them)",
        "zero divisors: any returned error is accepted, only a panic is reported",
    ],
    "explanation": "event log {op, operands with observed representation, result} checked offline-style against BigRational arithmetic: exactness, "
                   "representability, 2^-50 tolerance, truncating/flooring integer division",
}

CHECKS["C09"] = {
    "engine": "c09",
    "level": "exploration",
    "lanes_quick": [("release", None), ("chk", None)],
    "lanes_thorough": [("release", None), ("chk", None)],
    "floors": {"pairs": 50000, "triples": 10000, "trichotomy_observed": 50000},
    "rule": "all ordered pairs of the C08 palette extended with doubles (integers near 2^31/32/52/53/62/63/64 +-2 ulp, +-0.0, subnormals, +-inf, "
            "f64 extremes, the nearest double of every exact palette member and its two neighbours, random bit patterns) under < = > <= >= min max; "
            "every carrier under zero? positive? negative?; sampled triples (biased to neighbours in value order) for transitivity of = and < and "
            "for variadic-equals-conjunction. distinct_nontrivial counts distinct (value, representation) ordered pairs.",
    "assumptions": NUM_TRUST + ["NaN is excluded (the property says so); infinities are ordered below/above every finite value"],
    "explanation": "truth values of the comparison procedures compared with the exact rational order; transitivity and variadic consistency checked on "
                   "the observed answers themselves",
}

CHECKS["C16"] = {
    "engine": "c16",
    "level": "exploration",
    "lanes_quick": [("release", None), ("chk", None)],
    "lanes_thorough": [("release", None), ("chk", None)],
    "floors": {"inverse_roundtrips": 100000},
    "rule": "every member of the C08/C09 palettes at every applicable radix (exact: 2, 8, 10, 16; inexact finite: 10), plus random doubles by bit "
            "pattern, fixnums, bignums (62..256 bits), reduced rationals of both signs. One evaluation = number->string, string->number on the "
            "result, identity check (exact value and exactness; doubles by bit pattern), and the spelling evaluated as a source literal with the "
            "matching #b/#o/#d/#x prefix. distinct_nontrivial counts distinct (number, representation, radix) triples that completed the round trip.",
    "assumptions": NUM_TRUST,
    "explanation": "composition (string->number (number->string z r) r) executed in the VM and compared with z; literal evaluation compared with string->number",
}

CHECKS["C04"] = {
    "engine": "c04",
    "level": "exploration",
    "lanes_quick": [("release", None)],
    "lanes_thorough": [("release", None)],
    "exhaustive_claim": True,
    "timeout_thorough": 3 * 3600,
    "floors": {"control_nontail_growth_observed": 1, "loops_run": 1000, "instructions_observed": 1000000},
    "rule": "every composition of the 23 tail contexts (if both arms, cond clause/else/=>, case clause/else/=>, last of and/or, when, unless, "
            "let, let*, letrec, named let, begin, lambda body, body after internal define, call/cc receiver body, apply of a thunk, eval, a mixed "
            "one) to depth 2 (quick) / 3 (thorough) is enumerated; per composition 3 (quick) / 6 (thorough) programs with self, 2- and 3-procedure "
            "mutual recursion, seeded caller/callee arities 0..4 with and without rest parameters, and leaf call forms {direct, apply with list, "
            "apply spread, eval of a quoted call, call/cc directly on the callee}; thorough adds the full 5x5x2x2 arity grid at depth 1. Every program "
            "runs with n = 10, 10^3, 10^5 (eval-containing programs: 2*10^4 in quick) and must return 'done with the counter at -1. "
            "exhaustive refers to the enumerated context compositions. Non-trivial = loop completed for all n and high-water marks were compared; "
            "distinct = distinct program texts.",
    "assumptions": TRUSTED_COMMON + [
        "stack height is sampled at instruction boundaries (hook): growth inside one instruction is invisible, O(n) growth is not",
        "constant = high-water(n=10^5) <= high-water(n=10^3) + 32 slots (a missed tail call costs >= 4 slots per iteration)",
        "a non-tail control loop must show growth, otherwise the run is inconclusive",
    ],
    "explanation": "per-instruction stack high-water counter (verif hook) compared across n for generated tail-recursive loops",
}

MODEL_TRUST = TRUSTED_COMMON + [
    "RefScheme (harness/src/refscheme.rs, ~1.1 kLoC CEK machine) is the reference for R7RS on the generator grammar; it shares no code with "
    "marwood's compiler/VM and uses marwood's Cell only as the S-expression type programs are handed over in",
    "failures are compared by class {unbound-variable, not-a-procedure, wrong-arity, user-error(payload), other}, never by message; the "
    "unspecified value is a wildcard; procedures compare as 'a procedure'",
    "operands are evaluated left to right and the operator after them (R7RS leaves the operator's position open; generated programs never "
    "make it observable); programs whose meaning R7RS leaves open (set! of an undefined global, reads of uninitialised letrec/internal "
    "bindings, keywords rebound as variables, continuations applied to other than one value, integer overflow in the model) are "
    "'model-undecided' and never compared",
]

CHECKS["C01"] = {
    "engine": "c01",
    "level": "exploration",
    "lanes_quick": [("release", None)],
    "lanes_thorough": [("release", None), ("chk", None)],
    "floors": {"forms_compared": 50000, "failing_forms_compared": 500, "fresh_vm_pairs_compared": 5000, "unrelated_definition_runs_compared": 1000},
    "rule": "typed-hole generation of sessions of 4-14 top-level forms (definitions of data and of fixed/variadic procedures, redefinitions with "
            "the same signature, set!, expression forms) over lambda/define/set!/if/quote/quasiquote(nested, vectors)/let/let*/letrec/named "
            "let/begin/cond(=>)/case/and/or/when/unless/delay/force/apply/eval/call-cc/map/for-each/closures/higher-order use, nesting <= 5; one "
            "session in seven carries one injected failure (unbound variable, wrong type, wrong arity, user error, non-procedure call, index out of "
            "range) and keeps evaluating afterwards; one in four is re-run with unrelated definitions interleaved. Each session runs in the model "
            "and in three fresh VMs. A session is non-trivial when it combines >= 2 features beyond if/let/begin/output; distinct = distinct "
            "(tag set, program text).",
    "assumptions": MODEL_TRUST,
    "explanation": "online differential monitor form by form (value / failure class / display-write event order) plus VM-vs-VM and metamorphic twins; "
                   "mismatches are delta-debugged before they are signed",
}

CHECKS["C02"] = {
    "engine": "c02",
    "level": "exploration",
    "lanes_quick": [("release", None)],
    "lanes_thorough": [("release", None)],
    "exhaustive_claim": True,
    "floors": {"enumerated_depth_le_2": 10000, "forms_compared": 100000},
    "rule": "scope skeletons over names a, b, c: at each of up to 4 nested procedures each name is a parameter, the rest parameter, an internal "
            "definition or free (54 valid combinations per level). Enumerated completely: depth 1 x 4 invocation patterns x 5 assignment menus (none, before / after closure creation, mixed, and after creation through procedures that only write the variable); "
            "depth 2 all 54^2 kind pairs x 4 invocation patterns (assignment menu hashed in quick, all 5 in thorough); thorough also all 54^3 kind "
            "triples at depth 3 (pattern/menu hashed); depth 3-4 sampled. The probe body logs every read of every name before and after creating the "
            "inner closure and after assignments; closures are invoked inside the creator, after it returned, twice, and created in a loop and "
            "invoked out of order. exhaustive refers to the enumerated part. Every program is non-trivial; distinct = distinct skeletons.",
    "assumptions": MODEL_TRUST,
    "explanation": "read log (every read consed onto a global) and results compared with RefScheme, which keeps explicit locations per activation",
}

CHECKS["C03"] = {
    "engine": "c03",
    "level": "exploration",
    "lanes_quick": [("release", None)],
    "lanes_thorough": [("release", None), ("chk", None)],
    "timeout_thorough": 3 * 3600,
    "floors": {"collections_observed": 100000, "collections_that_freed_cells": 1000, "collections_with_live_continuation": 1000,
               "collections_with_operands_pending": 1000, "scheduled_runs": 500},
    "rule": "programs: C05 continuation sessions, C01 sessions, C02 scope skeletons and 14 allocation-heavy templates (list/vector/string builders, "
            "quasiquote aggregates, closure factories, continuation stores, eval loops, string->symbol churn, defines of aggregates of every kind, "
            "deep non-tail recursion, promises, generators, mixed churn). Each program runs once without forced collections and then in a fresh VM "
            "per schedule: every k-th instruction for k in {1,2,3,5,8,13} (quick) / 1..16 (thorough) and 2 / 4 seeded Bernoulli schedules, with k "
            "raised for long programs so that one run stays below 20000 collections; plus a collection between evaluations. One evaluation = one "
            "program under all its schedules. distinct = distinct program texts.",
    "assumptions": TRUSTED_COMMON + [
        "forced collections run the production run_gc (root enumeration, mark, sweep) with only the utilisation test bypassed",
        "the auditor's reachability rules (which VCell variants carry references) were written from the data-structure definitions, independently of Heap::mark",
        "roots = global binding keys and slots, stack[0..=sp], acc, ip.0, ep (the set the VM documents)",
    ],
    "explanation": "per collection: pre-snapshot, independent reachability, post-assertions (no reachable cell freed or changed; free list <=> Free "
                   "state; no surviving marks; symbol table bijection); per run: outcomes identical to the collection-free baseline",
}

CHECKS["C05"] = {
    "engine": "c05",
    "level": "exploration",
    "lanes_quick": [("release", None)],
    "lanes_thorough": [("release", None), ("chk", None)],
    "floors": {"forms_compared": 50000, "fresh_vm_pairs_compared": 5000},
    "rule": "sessions composed of 1-4 parametrised continuation idioms with unique names: call/cc at every operand index of 1-4-ary calls with "
            "traced sibling operands, k stored in a variable / vector / pair / closure and re-entered 0-3 times from later top-level forms; escape "
            "from depth d of non-tail recursion; two-continuation generators pulled across forms and inside one form; escape from map / for-each "
            "callbacks; re-entry into a map callback; invoking an earlier form's continuation inside another call/cc extent; receivers that return "
            "normally, variadic receivers, (apply call/cc ...); mutation of variables and data between capture and re-entry; loop exits and a "
            "capture per iteration; re-entry 0-3 times inside one form; tail/nested/cond=> positions; generated expressions with simple escapes. "
            "Every session is non-trivial; distinct = distinct program texts.",
    "assumptions": MODEL_TRUST,
    "explanation": "differential against RefScheme whose continuations are immutable frame lists (re-entrant by construction), form by form, plus VM-vs-VM",
}

CHECKS["C13"] = {
    "engine": "c13",
    "level": "exploration",
    "lanes_quick": [("release", None)],
    "lanes_thorough": [("release", None), ("chk", None)],
    "floors": {"forms_sliced": 50000, "resumes": 500000, "short_programs_all_constant_budgets": 100, "sessions_with_failing_forms": 20},
    "rule": "sessions from the C05 and C01 generators (one third with an injected failure). Programs with <= 2000 instructions: constant budgets 1..64 "
            "exhaustively (one third of them); otherwise one small constant budget and two seeded random budget sequences with budgets in 1..3, "
            "1..17, 1..100, 1..10^3 or 1..10^4; every other run forces a collection at each slice boundary. One evaluation = one (session, budget "
            "sequence). 'Eventually completes' is decided as a bound: resumes <= ceil(T / max(1, b-1)) + 2 for constant b, <= T + 2 otherwise, T "
            "measured by the hook on the uninterrupted twin. distinct = distinct session texts.",
    "assumptions": TRUSTED_COMMON + ["the uninterrupted twin in a second fresh VM is the reference; output is compared through a recording SystemInterface"],
    "explanation": "twin VMs; progress monitor on the hook's instruction counter at every resume; outcome / failure class / output / later forms compared",
}

CHECKS["C07"] = {
    "engine": "c07",
    "level": "fault_enumeration",
    "lanes_quick": [("release", None)],
    "lanes_thorough": [("release", None), ("chk", None)],
    "floors": {"failing_forms_executed": 10000, "later_forms_compared": 50000, "stack_traces_compared": 5000, "accumulation_runs": 10,
               "evaluations_with_sp_checked": 50000},
    "rule": "case index enumerates failure kind (index mod 6: unbound variable, wrong type, wrong arity, user error, non-procedure call, bad syntax) x "
            "failure shape ((index/6) mod 6: injected at a seeded subexpression position of a generated expression; raised at call depth 0..6 of "
            "a non-tail recursion; the same inside a call/cc extent; raised in the rest-of-computation of a stored continuation re-entered by the "
            "failing form; raised while evaluating a procedure argument; a read error in source text) x consecutive failures ((index/36) mod 4: "
            "1, 2, 10, 3), on top of a seeded session of generated definitions whose procedures have no global effects. Each failing form is "
            "'explicit (set! g v) effects, then the failing context'; the twin VM gets the effects only (nothing at all for errors detected before "
            "execution). Every 1000th case is an accumulation run comparing 10 with 1000 consecutive failures. distinct = distinct (main, twin) "
            "session texts that were compared to the end.",
    "assumptions": TRUSTED_COMMON + [
        "generated procedure bodies never assign globals, so the completed effects of a failing form are exactly its explicit (set! g v) prefix",
        "a syntax or read error is detected before any part of the form runs (whole top-level form compiled first), so its twin is empty",
        "a case whose injected failure is not reached (it sat in a branch not taken) is discarded, not compared",
    ],
    "explanation": "twin VMs (failures vs completed effects only): later outcomes, later stack traces (frame count and descriptors), stack pointer "
                   "before/after every evaluation (hook), stack capacity / live heap / sp / trace length after 10 vs 1000 failures",
}

CHECKS["C19"] = {
    "engine": "c19",
    "level": "exploration",
    "lanes_quick": [("release", None), ("dev", None)],
    "lanes_thorough": [("release", None), ("dev", None)],
    "exhaustive_claim": True,
    "as_gib": 10,
    "floors": {"cells_completed": 50},
    "rule": "grid cells direction:operation:depth:thread:build with direction in {car-nested list, cdr-nested list, nested vectors, quote chain, closure "
            "chain, continuation chain, non-tail recursion, nested expression}, the operations meaningful for it among {read, quote-evaluate, build at "
            "run time, keep live across two forced collections, equal?, write, drop, call, evaluate, error-at-depth, capture-continuation, "
            "lambda-body}, depth in {10^3, 10^4, 10^5}, thread in {main thread with RLIMIT_STACK 8 MiB, std::thread with 2 MiB}, build in {dev, "
            "release}. Quick runs every cell at 10^3 and 10^4 and the release/main-thread column at 10^5; thorough runs the whole grid "
            "(exhaustive). One evaluation = one child process. A cell is non-trivial when its child ran to completion; distinct = distinct cells.",
    "assumptions": TRUSTED_COMMON + [
        "each cell runs in its own child process; only death by signal counts, a printed error is a pass",
        "omitted cells: closure/continuation chains and recursion have no textual form (no read / quote-evaluate / write / equal?); nested expressions are code (no build / collect / equal? / write)",
        "the Cell or Vm is leaked (mem::forget) in every operation except 'drop', so that a destructor cannot decide another operation's cell",
    ],
    "explanation": "exit status of an isolated child per grid cell under explicit stack limits",
}

CHECKS["C18"] = {
    "engine": "c18",
    "level": "exploration",
    "lanes_quick": [("release", None)],
    "lanes_thorough": [("release", None), ("chk", None)],
    "floors": {"identity_checks": 10000, "inverse_string_symbol_string": 10000, "collections_observed": 100000},
    "rule": "names: empty, plain, with whitespace, with delimiters, with backslashes and \\x..; look-alikes, number-like, non-ASCII, random Unicode; name2 "
            "is name1 (half), a one-character near miss, or independent. Routes: literal, element of a quoted list / vector, string->symbol, output of a "
            "syntax-rules macro, eval of a constructed quote form, string->symbol of a computed string, quasiquote element (literal-based routes only when "
            "the spelling marwood itself writes for the symbol reads back as that symbol). Modes: same evaluation; two evaluations with a forced "
            "collection between; first production dropped and collected before two new ones; both held in a list across a collection. Schedules: none, "
            "every instruction, every k-th (k<=7), random 1-in-3, all with the heap auditor (symbol-table bijection) after each collection. Every case "
            "also checks both inverse laws. distinct = distinct (name1, name2, route1, route2).",
    "assumptions": TRUSTED_COMMON + [
        "the name of a symbol is what symbol->string returns; literal spellings are the canonical ones marwood's writer produces for (string->symbol s), "
        "never hand-written escape spellings",
    ],
    "explanation": "Scheme-level eq?/string=? results compared with name equality; intern table audited after every forced collection",
}

CHECKS["C12"] = {
    "engine": "c12",
    "level": "exploration",
    "lanes_quick": [("release", None)],
    "lanes_thorough": [("release", None)],
    "timeout_thorough": 3 * 3600,
    "floors": {"growth_comparisons": 40, "collections_observed": 10000, "drop_scenarios": 6, "quiescent_exactness_checks": 20},
    "rule": "part 1: one loop template per allocation kind (pairs, vectors, strings, closures and environments, closures called, continuations kept / "
            "escaped through, code and lambdas compiled by eval, interned symbols, quoted fresh symbols, bignums, promises, mixed, and successive "
            "top-level evaluations) x live-set size {0, 10, 1000} x n in {10^4} (quick) / {10^4, 10^5} (thorough; eval-based kinds a tenth of that): the "
            "loop runs n and 10n iterations in fresh VMs and heap capacity, cells in use after a forced collection, stack capacity, host bytes "
            "(counting allocator), intern-table size and host bytes after dropping the VM are compared. part 2: six programs under schedules "
            "every-1 / every-7 / random with the auditor's exactness assertion (allocated = reachable) after every forced collection. part 3: the "
            "same assertion at quiescent points between evaluations. part 4: six cycle-building programs, host bytes after drop(vm). One evaluation "
            "= one comparison / scheduled run / quiescent check / drop scenario; distinct counts distinct (kind, live set, n) and scenario names.",
    "assumptions": TRUSTED_COMMON + [
        "'stops growing' is decided as: capacity after 10n iterations <= 1.5 x capacity after n iterations (one growth step of slack) for n >= 10^4, "
        "cells in use after a collection within 256 cells, host bytes within 1.6x + 64 KiB, intern table within 64 entries",
        "fresh global variable names are not a garbage kind: a referenced global is part of the live global environment",
        "host bytes are counted by a global allocator wrapper installed in the worker binary",
    ],
    "explanation": "resource counters (hook stats + counting allocator) compared between n and 10n iterations; auditor exactness after collections; leak check after drop",
}

CHECKS["C14"] = {
    "engine": "c14",
    "level": "exploration",
    "lanes_quick": [("release", None), ("chk", None)],
    "lanes_thorough": [("release", None), ("chk", None)],
    "floors": {"operations": 100000, "forms_compared": 400000, "error_outcomes_compared": 20000},
    "rule": "a pool of 9 objects bound to globals o0..o8 (proper lists, improper lists, lists sharing tails, association lists, empty / filled / nested / "
            "aliasing vectors, scalars; an object may only contain objects of lower index, so the pool stays acyclic) and 1-12 operations drawn from "
            "cons car cdr set-car! set-cdr! list length append reverse list-tail list-ref memq memv member assq assv assoc map for-each list? "
            "vector make-vector vector-length vector-ref vector-set! vector-fill! vector->list list->vector vector-copy (with start) vector-copy! "
            "equal? eq?, indices from {-1, 0..4, 100, 10^6, 2^32}. After every operation the whole pool plus the last result is written and "
            "compared, and half of the time an eq?/eqv? identity probe as well. distinct = distinct session texts that agreed to the end.",
    "assumptions": MODEL_TRUST + ["memq/assq/memv/assv get only symbols, booleans, (), characters and exact integers as keys; vector-copy's end argument is never passed"],
    "explanation": "history + executable model (RefScheme pairs and vectors are mutable objects with identity); results, error/no-error status and the "
                   "contents of every pool object after each operation are compared",
}

CHECKS["C15"] = {
    "engine": "c15",
    "level": "exploration",
    "lanes_quick": [("release", None), ("chk", None)],
    "lanes_thorough": [("release", None), ("chk", None)],
    "floors": {"operations": 200000, "pool_snapshots_compared": 200000, "errors_reported_as_required": 20000},
    "rule": "a pool of 5 strings over 26 characters of every UTF-8 width (ASCII, 2-, 3-, 4-byte, U+10FFFF, final sigma, titlecase digraph, dotted "
            "capital I, whitespace, quote, backslash), lengths 0..7, and 1-10 operations from string-length string-ref string-set! substring "
            "string-copy string-fill! string->list string->vector vector->string list->string string make-string string-append string=? <? >? <=? "
            ">=? string-ci* (checked against string-foldcase, the R7RS definition) char-ci* (against char-foldcase) case conversion char->integer "
            "integer->char (across the surrogate range, above 0x10FFFF, negative) char comparisons and predicates; start/end/index from {-1, 0..len-1, "
            "len, len+1, 10^6}. After every operation the result and the contents of all five strings are compared with the Vec<char> model. "
            "distinct = distinct operation histories that agreed to the end.",
    "assumptions": TRUSTED_COMMON + [
        "a string is a mutable Vec<char>; ranges are valid iff 0 <= start <= end <= length; invalid indices, ranges and scalar values must be errors",
        "case mapping and character classes are std's (char::to_lowercase etc., trusted base); case-insensitive predicates are specified through foldcase",
        "string->vector / vector->string are called without range arguments (marwood does not implement them; the property allows an error there)",
    ],
    "explanation": "history + executable Vec<char> model with identity, compared after every operation",
}

CHECKS["C06"] = {
    "engine": "c06",
    "level": "exploration",
    "lanes_quick": [("release", None), ("chk", None)],
    "lanes_thorough": [("release", None), ("chk", None)],
    "timeout_quick": 1800,
    "timeout_thorough": 4 * 3600,
    "floors": {"builtin_calls": 100000, "errors_returned_and_rendered": 50000, "canaries_ok": 100000, "texts_evaluated": 50000, "programs": 100, "cells_evaluated": 50,
               "sliced_erroring_programs": 100},
    "rule": "case space (split over shards, run in sandboxed children): (1) every global name x arity 0 and 1 x a 66-entry palette of value-producing "
            "expressions (every kind and boundary the property names); (2) arity 2: 400 pairs per name in quick (all 225 ordered pairs of 15 numeric boundary values incl. i64 extremes, -1, infinities, NaN and the radixes 8 and 16, plus 175 seeded pairs) / all 66^2 pairs (thorough), "
            "sometimes passing the same object twice; (3) arities 3-5 sampled; (4) fuzz texts (random Unicode, token soup, mutated prelude slices, "
            "mutated generated programs) through eval_text datum by datum; (5) 22 circular-structure programs (list?, length, equal?, display, write, "
            "as the value of an evaluation) and ~130 programs about nesting <= 64, sizes <= 10^6, radix / exponent / syntax edge cases; (6) "
            "Vm::eval on Cells the API itself returns (procedure, macro, continuation, void, undefined) in 11 syntactic positions; (7) erroring "
            "programs through prepare_eval/run_count with budgets 1..3. Requested sizes above 10^6 (make-vector, make-string, expt exponent) are "
            "skipped. After every call the error (if any) is rendered and (+ 1 2) is evaluated as a canary. distinct = distinct (procedure, argument "
            "kind tuple) / program texts that ran cleanly.",
    "assumptions": TRUSTED_COMMON + [
        "a Scheme-level evaluation that exceeds 3*10^6 instructions on a matrix call or listed program is reported as a hang; on fuzz text it is only counted (arbitrary text may be a non-terminating program)",
        "a child process death or 10 s of silence is a violation only if the culprit case reproduces twice in isolation with a 30 s budget",
        "allocation-failure aborts are attributed to the case that requested the memory; requests above 10^6 elements are outside the property's quantifier",
    ],
    "explanation": "panic hook + catch_unwind at the API boundary, Display of returned errors, canary evaluation, instruction-budget watchdog, process "
                   "sandbox with journal for aborts and native hangs",
}

CHECKS["C17"] = {
    "engine": "c17",
    "level": "exploration",
    "lanes_quick": [("release", None)],
    "lanes_thorough": [("release", None), ("chk", None)],
    "timeout_quick": 1800,
    "floors": {"expansions_compared": 20000, "definitions_accepted": 10000, "uses": 50000},
    "rule": "transformers with 1-3 rules; patterns nested <= 3 with literals, _, numeric data, a custom ellipsis identifier (1 in 6), ellipsis depth 0-2, "
            "fixed tails after an ellipsis, dotted and vector patterns; templates that reuse, drop, duplicate and nest pattern variables (under one "
            "ellipsis, twice under one ellipsis, in two ellipsis uses, with a depth-0 variable under an ellipsis, nested and consecutive ellipses, "
            "dotted and vector templates); one transformer in eight gets a deliberately invalid template (variable with too few ellipses, ellipsis "
            "after a constant or after a non-ellipsis variable, too many ellipses). Templates are quoted, so evaluating a use returns the expansion "
            "as data. Uses are generated from each rule's pattern (0-3 repetitions per ellipsis) and by mutation (dropped / added / replaced / "
            "wrapped element). One evaluation = one transformer with its uses, in a sandboxed child. A transformer is non-trivial when at least one "
            "expansion was compared with the reference; distinct = distinct definitions.",
    "assumptions": TRUSTED_COMMON + [
        "the reference (harness/src/synrules.rs, 350 lines) implements R7RS 4.3.2 matching and instantiation without hygiene; generated templates "
        "insert only fresh symbols and data, so the renaming hygiene would add is not observable",
        "an error from marwood (at definition or at use) is always accepted; a use is judged against the first rule the reference matches, and is "
        "'invalid' only if that rule or a rule tried before it is invalid",
        "uses whose ellipsis variables under one template ellipsis matched different numbers of items are excluded (pinned truncation)",
        "a use that exceeds 2*10^6 VM instructions, or a child that dies or is silent for 10 s (reproduced twice at 30 s), counts as non-termination",
    ],
    "explanation": "value of (quote <expansion>) compared with the reference expansion; definition/use termination observed through the process sandbox",
}

# ---- texts for MANIFEST.json (tools/gen_manifest.py) ----
MANIFEST_TEXT = {}
NOT_APPLICABLE = {}

MANIFEST_TEXT["C20"] = {
    "technique": "runtime monitoring: differential oracle (independent bracket matcher over the token stream) on exhaustively enumerated and random inputs; panic recorder",
    "design_ref": "DESIGN.md 6 C20",
    "level_text": "Every (text, cursor) over the property's alphabet up to 5 (quick) / 7 (thorough) lexemes is executed against the real "
                  "highlighter and compared byte-for-byte with an independent reference; random longer Unicode texts extend reach beyond the bound. "
                  "This is exhaustive exploration of a bounded input space, not a proof for all texts.",
    "level_note": "Trusts marwood's scanner for the token stream (C11 monitors it), the harness's own partner finder, and rustc. "
                  "Loose wording in the property is read in the most permissive way so the check never demands more than the statement.",
}

MANIFEST_TEXT["C11"] = {
    "technique": "runtime monitoring: per-call invariant predicates (span/gap/consumption/remaining-text/incompleteness) over random, soup, mutated and generated well-formed inputs, in sandboxed child processes (hang/abort observer)",
    "design_ref": "DESIGN.md 6 C11",
    "level_text": "Millions of reader calls are observed and every call is judged by independent predicates (gap scanner, bracket-counting delimiter, "
                  "pointer-equality of the remaining text). The incompleteness clause is checked at every token boundary of every generated "
                  "well-formed sequence. Exploration: it says the contract held on the texts produced, not on all texts.",
    "level_note": "Trusts the harness's delimiter and gap scanner (about 80 lines), Rust's Unicode tables, and the process sandbox. Lexer-level "
                  "Incomplete (unterminated string) is not second-guessed because that would need an independent lexer.",
}

MANIFEST_TEXT["C10"] = {
    "technique": "runtime monitoring: round-trip oracle (write/read/re-write/quote-eval) with a strict identity comparison over generated data, all Unicode scalars and doubles by bit pattern",
    "design_ref": "DESIGN.md 6 C10",
    "level_text": "Each generated datum is pushed through the real printer, reader and VM heap and compared with itself under a comparison stricter than "
                  "the library's own equality. Reach comes from the generator (all character classes exhaustively in thorough, doubles by bit pattern "
                  "around every format switch). Exploration, not proof.",
    "level_note": "Trusts the strict comparison (60 lines), num's BigRational for exact values, and that the generator's symbol filter (the reader itself) "
                  "matches the property's 'symbols that the reader can produce'.",
}

MANIFEST_TEXT["C08"] = {
    "technique": "runtime monitoring: event-log checker against an arbitrary-precision rational oracle over a boundary-biased operand palette in every representation, release and overflow-checked builds",
    "design_ref": "DESIGN.md 6 C08",
    "level_text": "Every operator is driven over all ordered pairs of a boundary-biased palette in each representation (about 2*10^5 events per build in quick) "
                  "and each result is judged by exact rational arithmetic. Known representation-pair fallbacks that the pinned unit tests fix are listed as "
                  "open findings by (operator, representation pair, kind); anything else is a violation.",
    "level_note": "Trusts num's BigInt/BigRational. The palette is finite: values between the boundaries are only sampled.",
}
MANIFEST_TEXT["C09"] = {
    "technique": "runtime monitoring: comparison results checked against the exact rational order over all palette pairs in every representation; transitivity/variadic consistency checked on observed answers",
    "design_ref": "DESIGN.md 6 C09",
    "level_text": "All ordered pairs of a palette of exact numbers in every representation plus adversarially adjacent doubles are compared by the VM and by "
                  "exact arithmetic; sampled triples check transitivity independent of the oracle.",
    "level_note": "Trusts num's BigRational and BigRational::from_float for the exact value of a double.",
}
MANIFEST_TEXT["C16"] = {
    "technique": "runtime monitoring: inverse-function oracle (print, read back, compare by exact value/exactness/bit pattern) plus literal-vs-string->number agreement",
    "design_ref": "DESIGN.md 6 C16",
    "level_text": "Hundreds of thousands of numbers per run across representations, signs and radices go through the real procedures and must come back "
                  "identical; the printed spelling is also evaluated as a prefixed literal.",
    "level_note": "Trusts the identity comparison and num's BigRational.",
}

MANIFEST_TEXT["C04"] = {
    "technique": "runtime monitoring: invariant at a hook (stack high-water mark per instruction boundary) compared across iteration counts for exhaustively enumerated tail-context compositions",
    "design_ref": "DESIGN.md 6 C04",
    "level_text": "The context space of R7RS 3.5 up to the stated depth is enumerated completely and each program is actually executed for 10^5 iterations "
                  "under a counter that sees every instruction boundary; arities, recursion shapes and call forms are sampled per composition.",
    "level_note": "Trusts the max_sp hook (5 lines in the run loop) and that 32 slots of slack separate constant from linear growth.",
}

MANIFEST_TEXT["C01"] = {
    "technique": "runtime monitoring: online differential monitor against an executable reference model (CEK machine) on generated sessions, plus fresh-VM and unrelated-definition twins",
    "design_ref": "DESIGN.md 6 C01, 4.1, 4.2",
    "level_text": "Tens of thousands (quick) to over a million (thorough) generated sessions that deliberately combine features are executed by the real VM "
                  "and by an independent model, form by form. Exploration of the generator grammar, bounded in size and nesting.",
    "level_note": "Trusts RefScheme for the grammar's R7RS meaning; anything the model cannot decide is counted as undecided, never as a verdict.",
}
MANIFEST_TEXT["C02"] = {
    "technique": "runtime monitoring: differential read-log monitor against the reference model over exhaustively enumerated scope skeletons",
    "design_ref": "DESIGN.md 6 C02",
    "level_text": "The space of binding/shadowing/capture shapes up to depth 2 (3 in thorough) is enumerated completely and every read is logged and "
                  "compared, so an error in the per-lambda binding map has to show in one of the enumerated shapes.",
    "level_note": "Trusts RefScheme's explicit-location environments. Depth 4 is only sampled.",
}
MANIFEST_TEXT["C03"] = {
    "technique": "runtime monitoring: forced-collection schedules (hook) with an independent heap auditor (own reachability traversal, pre/post snapshots) and baseline-vs-scheduled outcome comparison",
    "design_ref": "DESIGN.md 6 C03, 4.3",
    "level_text": "Every instruction boundary of thousands of programs is visited by a real collection (k=1 schedules) and each collection is audited "
                  "against an independently computed reachable set; the evidence reports how many collections ran with continuations, closure "
                  "environments and half-built argument lists live.",
    "level_note": "Trusts the hook (production collector, threshold bypassed) and the auditor's reference-following rules.",
}
MANIFEST_TEXT["C05"] = {
    "technique": "runtime monitoring: differential monitor against a reference model with re-entrant continuations over parametrised continuation idioms",
    "design_ref": "DESIGN.md 6 C05",
    "level_text": "Each idiom the property names is a template with seeded parameters; sessions mix them so that continuations are re-entered from "
                  "later forms, from inside other extents and from library callbacks. Exploration.",
    "level_note": "Trusts RefScheme's continuation semantics (frames are immutable, so re-entry cannot be wrong by aliasing).",
}
MANIFEST_TEXT["C13"] = {
    "technique": "runtime monitoring: twin-VM equivalence (sliced vs uninterrupted) with a per-resume progress monitor on the hooked instruction counter and a bounded-resumes restatement of liveness",
    "design_ref": "DESIGN.md 6 C13",
    "level_text": "All constant budgets 1..64 for short programs and random budget sequences otherwise; each resume is checked for progress and the run for "
                  "completion within a bound derived from the measured instruction count.",
    "level_note": "Liveness is decided only as bounded progress. Trusts the instruction counter hook.",
}

MANIFEST_TEXT["C07"] = {
    "technique": "runtime monitoring: fault enumeration with twin VMs (failure history vs completed-effects-only history), hooked stack-pointer invariant after every evaluation, resource accumulation monitor (k=10 vs k=1000)",
    "design_ref": "DESIGN.md 6 C07",
    "level_text": "Failures of every kind are injected at enumerated shapes and depths into generated sessions; the state after them is compared with "
                  "a twin that only performed the completed effects, including the stack trace of a later failure, and the stack pointer is "
                  "checked at every evaluation boundary.",
    "level_note": "Trusts the construction 'explicit effects then failing context' for exactness of the twin, and the stats hook.",
}

MANIFEST_TEXT["C19"] = {
    "technique": "runtime monitoring: process-exit observer over a complete scenario grid, each cell in its own child process under explicit native-stack limits, in debug and optimised builds",
    "design_ref": "DESIGN.md 6 C19",
    "level_text": "The grid the property names is run cell by cell (exhaustively in thorough); an abort is observed as death by signal of the child. Cells that "
                  "abort on the pinned tree are listed individually as open findings, so a newly failing cell is still a violation.",
    "level_note": "Stack need is deterministic per cell and build up to a few kilobytes of environment; cells within that margin of the limit could flip.",
}

MANIFEST_TEXT["C18"] = {
    "technique": "runtime monitoring: identity oracle (eq? iff names equal) over production-route pairs under forced-collection schedules, with the heap auditor's symbol-table bijection check after every collection",
    "design_ref": "DESIGN.md 6 C18",
    "level_text": "Tens of thousands of names of every lexical class, every pair of production routes, within and across evaluations, with collections placed "
                  "at every instruction boundary between the two productions; the intern table is audited after each collection.",
    "level_note": "Trusts the hook, the auditor and marwood's writer for canonical spellings.",
}

MANIFEST_TEXT["C12"] = {
    "technique": "runtime monitoring: resource counters at hooks (heap/stack capacity, live cells after a forced collection, counting allocator) compared between n and 10n iterations per allocation kind; heap auditor exactness assertion after collections; host-leak check after drop",
    "design_ref": "DESIGN.md 6 C12",
    "level_text": "Boundedness is decided as a relative statement (10n vs n iterations) for every allocation kind and three live-set sizes, so retuning the heap "
                  "policy is not an alarm; 'no unreachable object remains after a collection' is checked exactly by the independent reachability "
                  "traversal after thousands of forced collections.",
    "level_note": "Liveness ('stops growing') is only decided in this bounded form. Trusts the hooks and the allocator wrapper.",
}
MANIFEST_TEXT["C14"] = {
    "technique": "runtime monitoring: operation histories over an aliasing object pool checked against an executable store model with identity, pool contents compared after every operation",
    "design_ref": "DESIGN.md 6 C14",
    "level_text": "Hundreds of thousands of operation sequences with hostile indices over shared, nested and empty containers; every operation's result, "
                  "error status and side effects on every object are compared with the model.",
    "level_note": "Trusts RefScheme's list/vector primitives (R7RS semantics, about 300 lines).",
}
MANIFEST_TEXT["C15"] = {
    "technique": "runtime monitoring: operation histories over a string pool checked against an executable Vec<char> model, contents compared after every operation",
    "design_ref": "DESIGN.md 6 C15",
    "level_text": "Sequences of string/character operations with characters of every byte width and indices around both ends of the valid range; results, "
                  "required errors and the contents of every string are compared after each step.",
    "level_note": "Trusts std's Unicode tables and the 300-line model.",
}

MANIFEST_TEXT["C06"] = {
    "technique": "runtime monitoring: panic recorder and process-exit/hang observer over the builtin matrix (every global procedure x arity x value-kind palette), fuzzed text, circular/deep/large scenarios and API-returned cells, in release and overflow-checked builds",
    "design_ref": "DESIGN.md 6 C06",
    "level_text": "Every public entry point is driven with hostile input in sandboxed child processes; a panic, abort, native hang, unrenderable error or a VM "
                  "that no longer evaluates a canary is a violation with the offending call as witness. The builtin matrix is discovered at run time "
                  "from global_symbols(), so new builtins are covered automatically.",
    "level_note": "Covers the argument kinds of the palette; values between the boundaries are not explored. Hangs are decided by instruction and wall-clock "
                  "budgets with confirmation re-runs.",
}

MANIFEST_TEXT["C17"] = {
    "technique": "runtime monitoring: differential oracle (textbook syntax-rules matcher/instantiator) on generated transformers and uses with quoted templates, in sandboxed children observing non-termination",
    "design_ref": "DESIGN.md 6 C17",
    "level_text": "Tens of thousands of generated transformers, each with matching and non-matching uses, are expanded by the real expander and by the "
                  "reference; a returned expansion must be the prescribed one, and definition and use must terminate. Feature classes that mis-expand on "
                  "the pinned tree are listed as open findings by (feature of the matched rule, kind of wrong behaviour).",
    "level_note": "Trusts the reference implementation and the process sandbox. Hygiene is outside the generated grammar.",
}


# ---- amendments to the exploration rules made after the seeded-change trials (DESIGN.md section 11) ----
def _amend(prop, old, new):
    r = CHECKS[prop]["rule"]
    assert old in r, (prop, old)
    CHECKS[prop]["rule"] = r.replace(old, new, 1)


_amend("C05", "escape from depth d of non-tail recursion; ",
       "escape from depth d of non-tail recursion; a continuation captured under 0..200 pending frames (clustered around the 256-slot initial "
       "stack size), stored and re-entered from later top-level forms, directly and from inside an operand; ")
_amend("C07", "failure kind (index mod 6: unbound variable, wrong type, wrong arity, user error, non-procedure call, bad syntax) x failure shape ((index/6) mod 6:",
       "failure kind (index mod 7: unbound variable, wrong type, wrong arity, user error, non-procedure call, bad syntax, a mutating primitive "
       "rejecting its arguments (vector-copy! / vector-fill! / vector-set! / string-fill! / string-set! / set-car! with ranges that are invalid only "
       "late), which must leave its target untouched) x failure shape ((index/7) mod 6:")
_amend("C07", "x consecutive failures ((index/36) mod 4: 1, 2, 10, 3)", "x consecutive failures ((index/42) mod 4: 1, 2, 10, 3)")
_amend("C07", "the twin VM gets the effects only (nothing at all for errors detected before execution). ",
       "the twin VM gets the effects only (nothing at all for errors detected before execution); one failing form in three also defines a keyword "
       "(define-syntax) before it fails. Directly after the failures a form the compiler rejects or a text the reader rejects is submitted and its "
       "failure and (absent) stack trace compared; a continuation captured under 0..180 pending frames before the failures is re-entered after them. ")
_amend("C12", "part 2: six programs under schedules",
       "part 1b: 'rolling' loops whose only live datum is the object made by the previous iteration, passed on as a loop argument (pair, vector, "
       "closure over the loop variable, closure over a fresh binding, continuation), 200 against 2000 iterations, comparing the cells the one "
       "survivor keeps allocated. part 2: six programs under schedules")
_amend("C14", "(proper lists, improper lists, lists sharing tails,",
       "(proper lists, improper lists whose tail is a scalar, a string, a fresh vector or a vector of the pool, lists sharing tails,")
_amend("C14", "vector-copy (with start) vector-copy! equal? eq?,",
       "vector-copy (with start) vector-copy! (also from the target itself, with overlapping ranges in both directions) equal? (against every other "
       "object and against a structural copy made with car/cdr/cons) eq?,")
_amend("C15", "string=? <? >? <=? >=? string-ci*", "string=? <? >? <=? >=? (2-4 arguments) string-ci*")
_amend("C15", "char comparisons and predicates; start/end/index",
       "char comparisons (2-4 arguments) and predicates, and rebinding a pool variable to a string that must be newly allocated (string-append of one "
       "argument, string-copy, substring, list->string) so that later mutations expose shared storage; start/end/index")
_amend("C17", "patterns nested <= 3 with literals, _, numeric data, a custom ellipsis identifier (1 in 6),",
       "patterns nested <= 3 with literals, _, constant data (numbers, strings, characters, booleans), a custom ellipsis identifier (1 in 6; then ... "
       "may be an ordinary pattern variable),")
_amend("C17", "(under one ellipsis, twice under one ellipsis,", "(under one ellipsis, two different variables under one ellipsis, twice under one ellipsis,")
_amend("C17", "Uses are generated from each rule's pattern (0-3 repetitions per ellipsis)",
       "Uses are generated from each rule's pattern (0-3 repetitions per ellipsis; at the position of a constant one time in four a look-alike of "
       "another type or exactness: the symbol a for \"a\" or #\\a, 1.0 for 1)")
_amend("C18", "(literal-based routes only when the spelling marwood itself writes for the symbol reads back as that symbol)",
       "(literal-based routes use the name itself whenever the reader takes that text for one identifier, which is independent of string->symbol; "
       "otherwise the spelling marwood writes for the symbol, if it reads back as that symbol)")
_amend("C18", "all with the heap auditor (symbol-table bijection) after each collection", "all with the heap auditor (symbol-table bijection) after each collection, scheduled or forced")
_amend("C19", "{read, quote-evaluate, build at run time, keep live across two forced collections, equal?, write, drop, call, evaluate, error-at-depth, capture-continuation, lambda-body}",
       "{read, quote-evaluate, build at run time, keep live across two forced collections, equal?, write, drop, call, evaluate, error-at-depth, "
       "capture-continuation, lambda-body; for flat lists also append, reverse, length/list?, list->vector/vector->list, map/for-each, apply, "
       "memq/member/memv, list-tail/list-ref}")
_amend("C06", "(+ 1 2) is evaluated as a canary.",
       "(+ 1 2) is evaluated as a canary; if that fails although ((lambda (x) x) 3) still works, the text may have rebound the global + "
       "(counted, fresh VM, no verdict).")
_amend("C02", "The probe body logs every read of every name",
       "Every level also defines an internal procedure whose three formals carry the three names (bound inside it only). The probe body logs every read of every name")
_amend("C05", "Every session is non-trivial;",
       "Every session also runs in two fresh VMs that must agree; for half of the sessions the second one forces a collection every 1..23 instructions. Every session is non-trivial;")
_amend("C07", "on top of a seeded session of generated definitions",
       "one case in four drives the VM that sees the failures in slices (prepare_eval + run_count(b), b in {1, 2, 5, 17, 100, 1000}), on top of a seeded session of generated definitions")
_amend("C12", "part 2: six programs under schedules",
       "part 1c: four of the garbage loops driven in slices (prepare_eval + run_count(b), b in {7, 100, 1000, 8191}). part 2: six programs under schedules")
_amend("C17", "nested and consecutive ellipses, dotted and vector templates)",
       "nested and consecutive ellipses, an ellipsis at the top level of the template and directly before the dot of a dotted template, dotted and vector templates)")
_amend("C19", "Quick runs every cell at 10^3 and 10^4 and the release/main-thread column at 10^5",
       "Quick runs every cell at 10^3 and 10^4, the release/main-thread column at 10^5, and for the flat-list and recursion rows also the release/2-MiB-thread column at 10^5")
_amend("C20", "One evaluation = one (text, cursor) pair",
       "Part 3: texts assembled from pieces whose token structure is known by construction (brackets of all spellings, #(, string literals "
       "containing brackets, escaped quotes and backslashes, comments containing quotes and brackets, character literals of brackets, atoms), every "
       "cursor; the lexer's bracket tokens must equal the constructed ones and the highlighter is judged against the constructed token stream, "
       "independently of marwood's lexer. One evaluation = one (text, cursor) pair")
_amend("C03", "and 14 allocation-heavy templates (list/vector/string builders,",
       "and 16 allocation-heavy templates (list/vector/string builders, symbols whose spelling needs escapes interned, dropped and re-interned,")
_amend("C06", "radix / exponent / syntax edge cases;",
       "radix / exponent / syntax edge cases, and three histories in which evaluations fail in between (a deep continuation re-entered after a "
       "run-time or syntax error, deep recursion after many errors);")
_amend("C01", "one session in seven carries one injected failure",
       "one session in five rebinds a built-in (abs, max, min or quotient, which neither the prelude nor other generated code uses) to a counting "
       "wrapper after code calling it was compiled, and reports the count last (late binding of globals); one in eight contains a parameterless "
       "procedure with internal state activated several times; one session in seven carries one injected failure")
_amend("C02", "Every level also defines an internal procedure",
       "The innermost level also evaluates, for each name, a named let whose tag is that name and whose init reads it. Every level also defines an internal procedure")
_amend("C03", "symbols whose spelling needs escapes interned, dropped and re-interned,",
       "symbols whose spelling needs escapes interned, dropped and re-interned, quasiquote templates whose dotted tail is a heap constant,")
_amend("C05", "re-entry 0-3 times inside one form;",
       "re-entry 0-3 times inside one form; call/cc as an operand directly in the body of a named procedure, re-entered by that same activation; "
       "a mutable object handed to a continuation and mutated through the other reference afterwards;")
_amend("C06", "(3) arities 3-5 sampled;",
       "(3) arities 3-5 sampled (a quarter passing the first argument again as the same object) plus, per name, 117 calls (X i X), (X i X j), "
       "(X i X j k) with X a vector / list / string passed twice as the same object and i, j, k in 0..2;")
_amend("C07", "failure kind (index mod 7: unbound variable,",
       "failure kind (index mod 7: unbound variable (referenced directly or by a procedure compiled earlier whose callee is defined only after the failures),")
_amend("C13", "One evaluation = one (session, budget ",
       "For failing forms the number of frames of the recorded stack trace is compared as well. One evaluation = one (session, budget ")
_amend("C17", "Uses are generated from each rule's pattern",
       "One datum in twelve of a use is a list headed by a keyword (prelude macro, special form, the macro itself), which inside the quoted expansion must come back untouched. Uses are generated from each rule's pattern")
_amend("C07", "Every 1000th case is an accumulation run comparing 10 with 1000 consecutive failures.",
       "Every 1000th case is an accumulation run comparing 10 with 1000 consecutive failures (stack capacity, stack pointer, heap capacity right after the failures, live cells after a collection, frames of the next trace).")
_amend("C12", "part 2: six programs under schedules",
       "part 1d: computations whose length grows with N and whose live set does not (a delay-force chain, a stream walk, allocating mutual tail calls) at N and 10N. part 2: six programs under schedules")
_amend("C12", "code and lambdas compiled by eval,", "code and lambdas compiled by eval (also with a fresh parameter name per iteration),")
_amend("C15", "integer->char (across the surrogate range, above 0x10FFFF, negative)", "integer->char (across the surrogate range, above 0x10FFFF, beyond 32 bits with valid low bits, negative)")
_amend("C18", "otherwise the spelling marwood writes for the symbol, if it reads back as that symbol)",
       "otherwise the spelling marwood writes for the symbol, if it reads back as that symbol; one case in three writes the literal with another spelling of the same name: a hex escape re-cased and zero-padded, or a plain character written as an escape)")
_amend("C19", "memq/member/memv, list-tail/list-ref}", "memq/member/memv, list-tail/list-ref, a dotted tail read from text and returned as a value}")
_amend("C20", "One evaluation = one (text, cursor) pair",
       "Part 4: a quarter of the constructed texts are typed character by character into one highlighter value (cursor at and just before the end), after which the cursor walks back over the finished line. One evaluation = one (text, cursor) pair")
_amend("C04", "per composition 3 (quick) / 6 (thorough) programs", "per composition 3 (quick) / 4 (thorough) programs")
_amend("C04", "(eval-containing programs: 2*10^4 in quick)", "(eval-containing programs: 2*10^4; programs whose recursive step is (call/cc f), which keeps a chain of n continuations live: 10^4)")

# ---- round 5 (DESIGN.md section 11) ----
_amend("C01", "one session in seven carries one injected failure",
       "one delay/force expression in three is a promise that forces itself re-entrantly under a mutable stop condition (R7RS 4.2.5: the first "
       "value delivered stays); one session in seven carries one injected failure")
_amend("C05", "re-entry 0-3 times inside one form;",
       "re-entry 0-3 times inside one form; a quarter of the sessions run their second fresh-VM copy over live ballast that holds the heap just "
       "under the collector's 75 % threshold, so that the collections the production code itself asks for really mark and sweep (counted in the evidence);")
_amend("C06", "(5) 22 circular-structure programs (list?, length, equal?, display, write, as the value of an evaluation)",
       "(5) 27 circular-structure programs (list?, length, equal?, display, write, as the value of an evaluation; cdr-cycles through the first "
       "pair and 'lasso' cycles that enter at a later pair, with length, list?, list-tail, list-ref, memq)")
_amend("C12", "code and lambdas compiled by eval (also with a fresh parameter name per iteration),",
       "code and lambdas compiled by eval (also with a fresh parameter name per iteration), bulk-allocating primitives (vector->list, string->list, "
       "list->vector, append / list-copy of 24-64 elements: more than one cell per executed instruction),")
_amend("C14", "list length append reverse list-tail",
       "list length append reverse (two times in three the result is kept and the argument or the result is mutated at once, so a result that "
       "aliases its argument shows in the pool) list-tail")
_amend("C15", "string=? <? >? <=? >=? (2-4 arguments) string-ci*",
       "string=? <? >? <=? >=? (2-4 arguments) string-ci* (against marwood's own string-foldcase, and against a literal case variant of the operand "
       "whose characters are replaced by other members of their fold class, including ones of another UTF-8 width: KELVIN SIGN, ANGSTROM SIGN, U+023A / U+2C65)")
_amend("C18", "or a plain character written as an escape)",
       "or a plain character written as an escape; one second name in five is the stored (escaped) spelling of the first name taken as a name, "
       "which must be a different symbol)")
