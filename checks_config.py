"""Per-property configuration of the orchestrator: engine, lanes (cargo profile, sub-lane argument),
evidence texts. Counts in evidence are always measured by the run; nothing here is a count."""

TRUSTED_COMMON = [
    "rustc/cargo build /repo's working tree faithfully; the worker links marwood by path with feature 'verif'",
    "the verif hooks are read-only except for triggering the production collector",
]

CHECKS = {}

CHECKS["C20"] = {
    "engine": "c20",
    "level": "exploration",
    "lanes_quick": [("release", None)],
    "lanes_thorough": [("release", None), ("chk", None)],
    "exhaustive_claim": True,
    "floors": {"highlighted_outputs": 1000, "check_true": 1000, "enumerated_strings": 1000},
    "rule": "exhaustive: every string of <= L lexemes (quick L=5, thorough L=7) over the 11-lexeme alphabet "
            "{ ( ) [ ] #( \" ; newline space a #\\( } with every cursor 0..=len+2, plus random longer Unicode texts with 4 random "
            "cursors each (incl. past the end and inside multi-byte characters). One evaluation = one (text, cursor) pair checked on "
            "both highlight and highlight_check. A text is non-trivial when at least one cursor produced a highlighted (changed) "
            "output; distinct = distinct texts by hash.",
    "assumptions": TRUSTED_COMMON + [
        "the token stream is marwood's own lex::scan (the property is phrased 'in the token stream'); scanner correctness is C11",
        "'the bracket at or just before the cursor' is read loosely: when a non-bracket token sits at the cursor and a bracket just "
        "before it, both 'unchanged' and 'partner of that bracket' are accepted; when two brackets qualify either partner is accepted",
        "highlight_check may be true only if a bracket token intersects bytes cursor-2..=cursor+1 (widest reading of 'within one position')",
    ],
    "explanation": "reference partner finder (proper nesting, '(' '[' '{' '#(' open, ')' ']' '}' close) compared with "
                   "ReplHighlighter::highlight byte for byte; highlight_check bounded by a window predicate; panics caught and reported",
}

# ---- texts for MANIFEST.json (tools/gen_manifest.py) ----
MANIFEST_TEXT = {}
NOT_APPLICABLE = {}

MANIFEST_TEXT["C20"] = {
    "technique": "runtime monitoring: differential oracle (independent bracket matcher over the token stream) on exhaustively enumerated and random inputs; panic recorder",
    "design_ref": "DESIGN.md 6 C20",
    "level_text": "Every (text, cursor) over the property's alphabet up to 5 (quick) / 7 (thorough) lexemes is executed against the real "
                  "highlighter and compared byte-for-byte with an independent reference; random longer Unicode texts extend reach beyond the bound. "
                  "This is exhaustive exploration of a bounded input space, not a proof for all texts.",
    "level_note": "Trusts marwood's scanner for the token stream (C11 monitors it), the harness's own partner finder, and rustc. "
                  "Loose wording in the property is read in the most permissive way so the check never demands more than the statement.",
}
