#!/usr/bin/env python3
"""Regenerate MANIFEST.json from checks_config.py (single source of truth for the per-check texts)."""
import json, os, sys, subprocess
VERIF = os.path.dirname(os.path.dirname(os.path.abspath(__file__)))
sys.path.insert(0, VERIF)
from checks_config import CHECKS, MANIFEST_TEXT, NOT_APPLICABLE

props = [json.loads(l)["id"] for l in open(os.path.join(VERIF, "properties.jsonl"))]
hook_commits = subprocess.run(["git", "-C", "/repo", "log", "--format=%H", "--grep=^verif:"], stdout=subprocess.PIPE, text=True).stdout.split()
checks = []
for pid in props:
    if pid not in CHECKS:
        continue
    c = CHECKS[pid]
    t = MANIFEST_TEXT[pid]
    entry = {
        "property_id": pid,
        "quick_cmd": "./check %s --tier quick" % pid,
        "thorough_cmd": "./check %s --tier thorough" % pid,
        "evidence_file": "/verif/evidence/%s.json" % pid,
        "replay_cmd_template": "./check %s --replay {path}" % pid,
        "engine": c["engine"],
        "level_claimed": {"category": c["level"], "text": t["level_text"], "design_ref": t["design_ref"]},
        "level_note": t["level_note"],
        "technique": t["technique"],
    }
    checks.append(entry)
na = [{"property_id": p, "reason": NOT_APPLICABLE.get(p, "check not built yet in this session; see DESIGN.md section 6 for the planned monitor")} for p in props if p not in CHECKS]
manifest = {
    "version": 1,
    "setup_cmd": "cd /verif/harness && CARGO_NET_OFFLINE=true cargo build --offline --quiet --profile release && CARGO_NET_OFFLINE=true cargo build --offline --quiet --profile chk && CARGO_NET_OFFLINE=true cargo build --offline --quiet --profile dev",
    "hooks": {
        "guard": "cargo feature 'verif' of crate marwood",
        "enable": "the harness crate /verif/harness depends on marwood by path (/repo/marwood) with features=[\"verif\"]; every check runs `cargo build` there first, so it rebuilds from /repo's working tree",
        "baseline_off_cmd": "cd /repo && cargo test --workspace --no-fail-fast --offline",
        "source_commits": hook_commits,
        "add_only": True,
    },
    "engines": [
        {"name": "mwv-worker", "path": "harness/src/bin/mwv-worker.rs", "serves_properties": [c["property_id"] for c in checks],
         "kind_free_text": "Rust worker linking the real marwood crate: workload generators, reference models, invariant auditors, panic/exit observers; one sub-command per property"},
        {"name": "check", "path": "check", "serves_properties": [c["property_id"] for c in checks],
         "kind_free_text": "python3 orchestrator: build, 16-way sharding under rlimits, merge, known-finding matching, evidence"},
    ],
    "checks": checks,
    "not_applicable": na,
    "notes": "Technique family: runtime monitoring. Verdicts are 'held on what was observed'. KNOWN_FINDINGS.txt lists genuine defects (open: suppress exactly one signature each; fixed: suppress nothing).",
}
json.dump(manifest, open(os.path.join(VERIF, "MANIFEST.json"), "w"), indent=1)
print("MANIFEST.json: %d checks, %d not_applicable" % (len(checks), len(na)))
