#!/bin/bash
# usage: tools/try_mutant.sh <patch-file> <tier> <PROP> [PROP...]
# Applies the patch to /repo, checks that the pinned suite still passes with hooks off, runs the
# given checks, prints a one-line verdict per check, and ALWAYS restores /repo afterwards.
patch="$1"; tier="$2"; shift 2
cd /repo || exit 2
if ! git diff --quiet; then echo "refusing: /repo has uncommitted changes"; exit 2; fi
if ! git apply --check "$patch" 2>/dev/null; then echo "PATCH-DOES-NOT-APPLY $patch"; exit 3; fi
git apply "$patch"
rm -rf /verif/harness/target/evidence_bak && cp -r /verif/evidence /verif/harness/target/evidence_bak
trap 'git -C /repo checkout -- . ; git -C /repo clean -fdq marwood/tests 2>/dev/null; rm -rf /verif/evidence; cp -r /verif/harness/target/evidence_bak /verif/evidence' EXIT
if [ -z "$SKIP_SUITE" ]; then   # SKIP_SUITE=1: the suite was already confirmed in the scratch worktree (tools/confirm_mutant.sh)
out=$(cargo test --workspace --no-fail-fast --offline 2>&1); rc=$?
passed=$(echo "$out" | grep -E '^test result: ok' | sed -E 's/.* ([0-9]+) passed.*/\1/' | paste -sd+ | bc)
echo "suite-with-mutant: rc=$rc passed=$passed"
if [ $rc -ne 0 ]; then echo "$out" | grep -E 'FAILED|panicked|^error' | head -5; fi
fi
cd /verif
for p in "$@"; do
  s=$(date +%s)
  ./check $p --tier $tier > ${TRIAL_LOG:-/tmp/mut_$p.log} 2>&1; crc=$?
  e=$(date +%s)
  nv=$(grep -c '^VIOLATION' ${TRIAL_LOG:-/tmp/mut_$p.log})
  first=$(grep -m1 '  sig=' ${TRIAL_LOG:-/tmp/mut_$p.log} | cut -c1-160)
  echo "check $p tier=$tier exit=$crc violations=$nv wall=$((e-s))s $first"
done
