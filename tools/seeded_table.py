#!/usr/bin/env python3
"""Print the markdown table of seeded changes (DESIGN.md section 11) from seeded/*/meta.json."""
import glob, json, os
rows = []
for f in sorted(glob.glob("/verif/seeded/C*/meta.json")):
    m = json.load(open(f))
    det = []
    for t in m["checks_run"]:
        det.append("%s %s: %s%s" % (t["check"], t["tier"], "caught in %ds (`%s`)" % (t["wall_s"], t["first_signature"][:70]) if t["detected"] else "MISSED (exit %d)" % t["exit"], ""))
    rows.append("| %s | %s | %s | %s |" % (m["id"], m["change"].replace("|", "\\|"), m["needs_to_manifest"].replace("|", "\\|"), "; ".join(det).replace("|", "\\|")))
print("| id | change | needs | own check (quick tier) |")
print("|---|---|---|---|")
print("\n".join(rows))
