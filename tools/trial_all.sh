#!/bin/bash
# usage: tools/trial_all.sh <tier> <outdir> <PROP...>  — tries mutant1/mutant2 of each /tmp/mut/<PROP> against the property's own check
tier=$1; out=$2; shift 2; mkdir -p $out
for p in "$@"; do for n in 1 2 3; do
  f=${MUTROOT:-/tmp/mut}/$p/mutant$n.patch; [ -f $f ] || continue
  SKIP_SUITE=1 TRIAL_LOG=$out/${p}_m$n.log /verif/tools/try_mutant.sh $f $tier $p 2>&1 | sed "s/^/$p m$n: /" | tee -a $out/SUMMARY
done; done
