#!/bin/bash
# usage: tools/run_all.sh <tier> <seed> <logdir> [PROP...]   — runs checks one after another, logs per property
tier=$1; seed=$2; logdir=$3; shift 3
props=${@:-C01 C02 C03 C04 C05 C06 C07 C08 C09 C10 C11 C12 C13 C14 C15 C16 C17 C18 C19 C20}
mkdir -p "$logdir"
for p in $props; do
  [ -e "$logdir/STOP" ] && { echo stopped; break; }
  t0=$(date +%s)
  /verif/check $p --tier $tier --seed $seed > "$logdir/$p.log" 2>&1
  rc=$?
  echo "$p tier=$tier seed=$seed rc=$rc secs=$(( $(date +%s) - t0 )) viol=$(grep -c '^VIOLATION' $logdir/$p.log) known=$(grep -c '^KNOWN-FINDING' $logdir/$p.log)" | tee -a "$logdir/SUMMARY"
done
