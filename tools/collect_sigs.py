#!/usr/bin/env python3
"""Run a check at several seeds/tiers and print the union of violation signatures (triage aid)."""
import subprocess, sys, re
prop = sys.argv[1]; tier = sys.argv[2]; seeds = sys.argv[3:] or ["1"]
sigs = {}
per_seed = {}
for sd in seeds:
    p = subprocess.run(["./check", prop, "--tier", tier, "--seed", sd], cwd="/verif", stdout=subprocess.PIPE, text=True)
    lines = p.stdout.splitlines()
    for i, l in enumerate(lines):
        if l.startswith("  sig="):
            sigs.setdefault(l[6:], lines[i+1].strip() if i+1 < len(lines) else "")
            per_seed.setdefault(sd, set()).add(l[6:])
    print("seed", sd, "exit", p.returncode, lines[-2] if len(lines) > 1 else "", file=sys.stderr)
for s in sorted(sigs):
    print(s, "\t", sigs[s][:260])

for sd in seeds:
    missing = set(sigs) - per_seed.get(sd, set())
    if missing:
        print("seed", sd, "did not hit:", sorted(missing), file=sys.stderr)
