#!/bin/bash
# usage: tools/confirm_mutant.sh <scratch-worktree-dir>
# Confirms, inside a scratch worktree (never /repo), for mutant1/mutant2: the patch applies, the
# pinned suite passes with it, the demo fails with it and passes without it. Prints one line each.
d=$1; cd "$d" || exit 2
export CARGO_NET_OFFLINE=true
for n in 1 2 3; do
  [ -f mutant$n.patch ] || continue
  git checkout -q -- . ; rm -f marwood/tests/mutant*_demo.rs
  if ! git apply mutant$n.patch 2>/dev/null; then echo "$(basename $d) m$n apply=FAIL"; continue; fi
  cargo test --workspace --offline --no-fail-fast > confirm_suite$n.log 2>&1; suite=$?
  npass=$(grep -h '^test result' confirm_suite$n.log | awk '{s+=$4} END{print s}')
  cp demo$n.rs marwood/tests/mutant${n}_demo.rs
  feat=""; grep -q 'feature = "verif"' demo$n.rs && feat="--features verif"
  timeout 900 cargo test --offline -p marwood $feat --test mutant${n}_demo > confirm_demo_with$n.log 2>&1; with=$?
  git checkout -q -- .
  timeout 900 cargo test --offline -p marwood $feat --test mutant${n}_demo > confirm_demo_without$n.log 2>&1; without=$?
  ran=$(grep -h '^test result' confirm_demo_without$n.log | awk '{s+=$4} END{print s}')
  rm -f marwood/tests/mutant${n}_demo.rs
  echo "$(basename $d) m$n suite_rc=$suite suite_passed=$npass demo_with_rc=$with demo_without_rc=$without demo_tests_passed_without=$ran feat='$feat'"
done
git checkout -q -- . ; rm -f marwood/tests/mutant*_demo.rs
