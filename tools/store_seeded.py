#!/usr/bin/env python3
"""Store confirmed seeded changes under /verif/seeded/<id>/ (patch.diff, demo.rs, meta.json).

usage: store_seeded.py <scratch-root> <trial-dir> <round> [<confirm-log>...]
  scratch-root: directory with one scratch worktree per property (mutantN.patch, demoN.rs, NOTES.md)
  trial-dir:    output of tools/trial_all.sh (SUMMARY + per-mutant logs)
"""
import json, os, re, shutil, subprocess, sys
sys.path.insert(0, "/verif/seeded")
from descriptions import D

root, trials, rnd = sys.argv[1], sys.argv[2], sys.argv[3]
confirm = {}
for f in sys.argv[4:]:
    for line in open(f):
        m = re.match(r"(C\d\d) m(\d) (.*)", line.strip())
        if m:
            confirm[(m.group(1), m.group(2))] = dict(kv.split("=", 1) for kv in re.findall(r"(\w+=[^ ]+)", m.group(3)))
trial = {}
for line in open(os.path.join(trials, "SUMMARY")):
    m = re.match(r"(C\d\d) m(\d): check (C\d\d) tier=(\w+) exit=(\d+) violations=(\d+) wall=(\d+)s\s*(sig=.*)?", line.strip())
    if m:
        trial.setdefault((m.group(1), m.group(2)), []).append(
            {"check": m.group(3), "tier": m.group(4), "exit": int(m.group(5)), "violation_signatures": int(m.group(6)), "wall_s": int(m.group(7)),
             "first_signature": (m.group(8) or "")[4:]})
head = subprocess.run(["git", "-C", "/repo", "rev-parse", "--short", "HEAD"], capture_output=True, text=True).stdout.strip()
for (prop, n), tr in sorted(trial.items()):
    mid = "%s-%s%s" % (prop, "m" if rnd == "1" else "r%sm" % rnd, n)
    src = os.path.join(root, prop)
    patch = os.path.join(src, "mutant%s.patch" % n)
    demo = os.path.join(src, "demo%s.rs" % n)
    if not os.path.exists(patch):
        continue
    c = confirm.get((prop, n))
    if not c or c.get("suite_rc") != "0" or c.get("demo_with_rc") == "0" or c.get("demo_without_rc") != "0":
        print("SKIP (not confirmed):", mid, c)
        continue
    d = os.path.join("/verif/seeded", mid)
    os.makedirs(d, exist_ok=True)
    shutil.copy(patch, os.path.join(d, "patch.diff"))
    if os.path.exists(demo):
        shutil.copy(demo, os.path.join(d, "demo.rs"))
    desc = D.get(mid, ("", ""))
    feat = c.get("feat", "''").strip("'")
    meta = {
        "id": mid,
        "property": prop,
        "change": desc[0],
        "needs_to_manifest": desc[1],
        "origin": "fresh sub-agent given only the property text and a scratch worktree of /repo (round %s)" % rnd if mid != "C03-m3" else "reverse of /repo commit e1b42ab (a defect this framework found on the original tree)",
        "applies_to": head,
        "confirmed_by_me": {
            "how": "tools/confirm_mutant.sh in the scratch worktree: git apply; cargo test --workspace --offline --no-fail-fast; demo copied to marwood/tests/ and run with and without the patch" + (" (--features verif)" if "verif" in feat else ""),
            "suite_with_change": "exit %s, %s tests passed" % (c.get("suite_rc"), c.get("suite_passed")),
            "demo_with_change": "fails (cargo exit %s)" % c.get("demo_with_rc"),
            "demo_without_change": "passes (%s tests)" % c.get("demo_tests_passed_without"),
        },
        "checks_run": [dict(t, command="cd /repo && git apply /verif/seeded/%s/patch.diff; /verif/check %s --tier %s; git -C /repo checkout -- ." % (mid, t["check"], t["tier"]),
                            detected=(t["exit"] == 1 and t["violation_signatures"] > 0)) for t in tr],
    }
    json.dump(meta, open(os.path.join(d, "meta.json"), "w"), indent=1, ensure_ascii=False)
    print("stored", mid, [(t["check"], t["exit"]) for t in tr])
